"""Sidecar contracts for periodictable/formulas.py (composition layer: C01, C02, C12, C19).

Postconditions are taken from the property statements; loop invariants and helper preconditions
from the code.  Nothing in /repo is annotated.
"""
import z3

from pyvc import spec, theories as T
from pyvc.contract import Unit, Lemma
from pyvc.state import State
from pyvc.values import *   # noqa
from pyvc.values import VObj, VOpt, VSym, VTuple, VList, VMap, VDict, Unsupported
from .common import *      # noqa
from .common import (ATOMS, SEQS, FORMULAS, CORE, AVOGADRO, atoms_map, denotation_map, prefix_map,
                     use_state, map_get)

FCLS = (FORMULAS, "Formula")
F = FORMULAS + ".Formula."


# ------------------------------------------------------------------------------ symbolic inputs

def new_formula(st, name, density="opt", kind="tuple"):
    """a Formula object in an arbitrary well-formed state"""
    s = SEQS.new(st, name + "_structure")
    s.kind = kind
    if density == "opt":
        d = VOpt(st.fresh(name + "_density_is_none", z3.BoolSort()), st.fresh(name + "_density", z3.RealSort()))
    elif density == "known":
        d = st.fresh(name + "_density", z3.RealSort())
    else:
        d = None
    nm = VOpt(st.fresh(name + "_name_is_none", z3.BoolSort()), st.fresh(name + "_name", z3.StringSort()))
    return VObj(FCLS, {"structure": s, "name": nm, "density": d})


def structure_expr(interp, st, v):
    """Struct-sorted term of a structure value (splits fragments)"""
    if isinstance(v, VSym) and isinstance(v.theory, T.FragTheory):
        v = v.theory.split(interp, st, v)
    if isinstance(v, VSym) and isinstance(v.theory, T.SeqTheory):
        return v.expr
    return None


def atoms_of_value(interp, st, struct):
    """the atom map denoted by a structure value (symbolic or hybrid)"""
    S = structure_expr(interp, st, struct)
    if S is not None:
        return denotation_map(st, S)
    a = z3.Const("a!den", T.Atom)
    k = st.fresh("a_hyb", T.Atom)
    # hybrid (concrete tuple of pairs): denotation computed structurally at a bound variable
    body = T.den_of(interp, st, struct, a)
    sup = sup_of(interp, st, struct, a)
    return atoms_map(z3.Lambda([a], sup), z3.Lambda([a], body))


def sup_of(interp, st, value, a):
    if isinstance(value, VSym):
        th = value.theory
        if isinstance(th, T.SeqTheory):
            return T.SUP(value.expr, a)
        if isinstance(th, T.FragTheory):
            return T.occurs(value.expr, a)
        if isinstance(th, T.AtomTheory):
            return value.expr == a
    if isinstance(value, (VTuple, VList)):
        r = z3.BoolVal(False)
        for pair in value.items:
            r = z3.Or(r, sup_of(interp, st, pair.items[1], a))
        return r
    raise Unsupported("support of %r" % type(value).__name__)


# ------------------------------------------------------------------------------ callee contracts

def c_count_atoms(interp, st, args, kw):
    """_count_atoms(seq): {a: den(seq,a)} over the support; den is 0 outside the support.
    At recursive call sites the measure depth(seq) must decrease."""
    seq = args[0]
    S = structure_expr(interp, st, seq)
    if S is None:
        return atoms_of_value(interp, st, seq)
    measure = st.ghost.get("decreases")
    if measure is not None:
        st.oblige("recursion.decreases", z3.And(T.DEPTH(S) < measure, T.DEPTH(S) >= 0), kind="pre")
    # den is zero outside the support (part of the callee's postcondition): instantiated at the
    # skolem keys where the map is compared, which keeps path conditions quantifier-free
    m = denotation_map(st, S)
    inst0 = m.inst

    def inst(st_, k):
        inst0(st_, k)
        st_.assume(z3.Implies(z3.Not(T.SUP(S, k)), T.DEN(S, k) == 0))
    m.inst = inst
    return m


def c_atoms_getter(interp, st, args, kw):
    """Formula.atoms == _count_atoms(self.structure)  (proved by unit Formula.atoms)"""
    self = args[0]
    return c_count_atoms(interp, st, [self.attrs["structure"]], {})


def c_mass_getter(interp, st, args, kw):
    self = args[0]
    A = c_atoms_getter(interp, st, [self], {})
    return mass_spec(st, A)


def mass_spec(st, A):
    f = z3.Lambda([_a], T.MASS(_a) * z3.Select(A.val, _a))
    return spec.SumOver(st, A.dom, f, T.Atom)


_a = z3.Const("a!lam", T.Atom)


def charge_spec(st, A):
    f = z3.Lambda([_a], z3.Select(A.val, _a) * z3.ToReal(T.CHARGE(_a)))
    return spec.SumOver(st, A.dom, f, T.Atom)


CALLEE = {
    FORMULAS + "._count_atoms": c_count_atoms,
    F + "atoms": c_atoms_getter,
}
CALLEE_MASS = dict(CALLEE)
CALLEE_MASS[F + "mass"] = c_mass_getter


# ------------------------------------------------------------------------------ _count_atoms

def _ca_inputs(st, interp):
    use_state(st)
    s = SEQS.new(st, "seq")
    st.ghost["decreases"] = T.DEPTH(s.expr)
    return [s], {}, {"S": s.expr}


def _ca_post(st, interp, C, res):
    S = C["S"]
    if res.outcome == "raise":
        st.oblige("never-raises", False, kind="raises", info={"exc": res.exc})
        return
    st.oblige("post.result-is-denotation", spec.eq_goal(interp, st, res.value, denotation_map(st, S)))
    st.oblige("post.zero-outside-support", spec.goal(st, spec.Forall(
        T.Atom, lambda a: z3.Implies(z3.Not(T.SUP(S, a)), T.DEN(S, a) == 0),
        inst=lambda st_, a: SEQS.whole(st_, S, a))))


def _ca_l1_define(E):
    S, i = E.it.expr, E.i
    how = "base" if z3.is_int_value(i) else (("step", z3.simplify(i - 1)) if z3.is_add(i) else None)
    return prefix_map(E.st, S, i, how)


def _ca_l1_inv(E):
    S, i = E.it.expr, E.i

    def inst(st_, a):
        if z3.is_int_value(i):
            SEQS.base_prefix(st_, S, a)
        elif z3.is_add(i):
            SEQS.unfold_prefix(st_, S, z3.simplify(i - 1), a)
        p = E.cur.get("partial")
        if isinstance(p, VMap) and p.inst is not None:
            p.inst(st_, a)      # callee postcondition of the recursive call at this atom
    return [("zero-outside-support",
             spec.Forall(T.Atom, lambda a: z3.Implies(z3.Not(T.SUPP(S, i, a)), T.DENP(S, i, a) == 0), inst=inst))]


def _ca_l2_define(E):
    P, old, cnt, V = E.it, E.old["total"], E.cur["count"], E.V
    a = z3.Const("a!l2", T.Atom)
    dom = z3.Lambda([a], z3.Or(z3.Select(old.dom, a), z3.Select(V, a)))
    val = z3.Lambda([a], z3.If(z3.Select(old.dom, a), z3.Select(old.val, a), 0)
                    + z3.If(z3.Select(V, a), z3.Select(P.val, a) * to_real(cnt), 0))

    def inst(st_, k):
        for m in (old, P):
            if m.inst is not None:
                m.inst(st_, k)
    return atoms_map(dom, val, inst=inst)


def _ca_names(fn):
    """roles of _count_atoms' locals, read off the text: `total` is what the function returns, `count` the first target of the
    outer loop, `partial` the mapping whose items the inner loop visits"""
    import ast
    rets = [n for n in ast.walk(fn) if isinstance(n, ast.Return) and isinstance(n.value, ast.Name)]
    loops_ = sorted([n for n in ast.walk(fn) if isinstance(n, ast.For)], key=lambda n: (n.lineno, n.col_offset))
    outer, inner = loops_[0], loops_[1]
    roles = {"total": rets[-1].value.id, "count": outer.target.elts[0].id}
    it = inner.iter
    if isinstance(it, ast.Call) and isinstance(it.func, ast.Attribute) and isinstance(it.func.value, ast.Name):
        roles["partial"] = it.func.value.id
    return roles


U_COUNT_ATOMS = Unit(
    "_count_atoms", FORMULAS + "._count_atoms", _ca_inputs, _ca_post,
    contracts={FORMULAS + "._count_atoms": c_count_atoms},
    loops={(FORMULAS + "._count_atoms", 1): {"define": {"total": _ca_l1_define}, "invariant": _ca_l1_inv, "names": _ca_names},
           (FORMULAS + "._count_atoms", 2): {"define": {"total": _ca_l2_define}, "mutates": ["total"], "names": _ca_names}},
    replay={"module": "c02", "task": "replay"},
    doc="atoms(seq)[a] == sum over entries of count * (1 if fragment is a else atoms(fragment)[a])")


# ------------------------------------------------------------------------------ Formula.atoms

def _self_inputs(density="opt"):
    def mk(st, interp):
        use_state(st)
        f = new_formula(st, "self", density)
        return [f], {}, {"self": f, "S": f.attrs["structure"].expr, "snapshot": dict(f.attrs)}
    return mk


def frame_unchanged(st, obj, snapshot, label="self"):
    same = set(obj.attrs) == set(snapshot) and all(obj.attrs[k] is snapshot[k] for k in snapshot)
    st.oblige("frame.%s-unchanged" % label, z3.BoolVal(bool(same)), kind="frame")


def _atoms_post(st, interp, C, res):
    if res.outcome == "raise":
        st.oblige("never-raises", False, kind="raises", info={"exc": res.exc})
        return
    st.oblige("post.atoms-is-denotation-of-structure",
              spec.eq_goal(interp, st, res.value, denotation_map(st, C["S"])))
    frame_unchanged(st, C["self"], C["snapshot"])


U_ATOMS = Unit("Formula.atoms", F + "atoms", _self_inputs(), _atoms_post,
               contracts={FORMULAS + "._count_atoms": c_count_atoms},
               replay={"module": "c02", "task": "replay"})


# ------------------------------------------------------------------------------ Formula.mass

def _mass_post(st, interp, C, res):
    if res.outcome == "raise":
        st.oblige("never-raises", False, kind="raises", info={"exc": res.exc})
        return
    A = denotation_map(st, C["S"])
    st.oblige("post.mass-is-count-weighted-sum", spec.eq_goal(interp, st, res.value, mass_spec(st, A)))
    frame_unchanged(st, C["self"], C["snapshot"])


def _mass_loop_define(E):
    A = E.it
    f = z3.Lambda([_a], T.MASS(_a) * z3.Select(A.val, _a))
    return spec.SumOver(E.st, E.V, f, T.Atom)


U_MASS = Unit("Formula.mass", F + "mass", _self_inputs(), _mass_post, contracts=CALLEE,
              loops={(F + "mass", 1): {"iter": "self.atoms.items()", "define": {"mass": _mass_loop_define}}},
              replay={"module": "c02", "task": "replay"})


# ------------------------------------------------------------------------------ Formula.charge

def _charge_post(st, interp, C, res):
    if res.outcome == "raise":
        st.oblige("never-raises", False, kind="raises", info={"exc": res.exc})
        return
    A = denotation_map(st, C["S"])
    st.oblige("post.charge-is-count-weighted-sum", spec.eq_goal(interp, st, res.value, charge_spec(st, A)))
    frame_unchanged(st, C["self"], C["snapshot"])


U_CHARGE = Unit("Formula.charge", F + "charge", _self_inputs(), _charge_post, contracts=CALLEE,
                replay={"module": "c02", "task": "replay"})


# ------------------------------------------------------------------------------ molecular_mass, mass_fraction

def _molmass_post(st, interp, C, res):
    if res.outcome == "raise":
        st.oblige("never-raises", False, kind="raises", info={"exc": res.exc})
        return
    A = denotation_map(st, C["S"])
    st.oblige("post.molecular_mass-is-mass-over-avogadro",
              spec.eq_goal(interp, st, res.value, mass_spec(st, A) / z3.RealVal(AVOGADRO)))


U_MOLMASS = Unit("Formula.molecular_mass", F + "molecular_mass", _self_inputs(), _molmass_post,
                 contracts=CALLEE_MASS, replay={"module": "c02", "task": "replay"})


def _mf_inputs(st, interp):
    args, kw, C = _self_inputs()(st, interp)
    A = denotation_map(st, C["S"])
    C["M"] = mass_spec(st, A)
    st.assume(C["M"] != 0)      # the property speaks about formulas with non-zero mass
    return args, kw, C


def _mf_post(st, interp, C, res):
    if res.outcome == "raise":
        st.oblige("never-raises", False, kind="raises", info={"exc": res.exc})
        return
    A = denotation_map(st, C["S"])
    M = C["M"]
    want = atoms_map(A.dom, z3.Lambda([_a], z3.Select(A.val, _a) * T.MASS(_a) / M), inst=A.inst)
    st.oblige("post.fraction-is-count-times-mass-over-total", spec.eq_goal(interp, st, res.value, want))


U_MASS_FRACTION = Unit("Formula.mass_fraction", F + "mass_fraction", _mf_inputs, _mf_post,
                       contracts=CALLEE_MASS, replay={"module": "c02", "task": "replay"})


# ------------------------------------------------------------------------------ lemmas on finite sums (L3)

def lemma_sum_homogeneous():
    """SumOver(S, c*f) == c*SumOver(S, f): set-insertion induction (base: empty set, step: S+{k})"""
    states = []
    c = z3.Real("c")
    f = z3.Const("f", z3.ArraySort(T.Atom, z3.RealSort()))
    cf = z3.Lambda([_a], c * z3.Select(f, _a))
    # base
    st = State()
    e = z3.K(T.Atom, z3.BoolVal(False))
    st.oblige("base", spec.SumOver(st, e, cf, T.Atom) == c * spec.SumOver(st, e, f, T.Atom), kind="lemma")
    states.append(st)
    # step
    st = State()
    V = z3.Const("V", z3.ArraySort(T.Atom, z3.BoolSort()))
    k = z3.Const("k", T.Atom)
    st.assume(z3.Not(z3.Select(V, k)))
    st.assume(spec.SumOver(st, V, cf, T.Atom) == c * spec.SumOver(st, V, f, T.Atom))
    V2 = z3.Store(V, k, z3.BoolVal(True))
    st.oblige("step", spec.SumOver(st, V2, cf, T.Atom) == c * spec.SumOver(st, V2, f, T.Atom), kind="lemma")
    states.append(st)
    return states


L_SUM_HOMOGENEOUS = Lemma("SumOver.homogeneous", lemma_sum_homogeneous,
                          doc="finite sums commute with a constant factor; gives sum(mass_fraction) == 1")


def lemma_mass_fractions_sum_to_one():
    """with the homogeneity lemma instantiated at c = 1/M:  SumOver(dom, n*m/M) == 1 when M == SumOver(dom, n*m) != 0"""
    st = State()
    dom = z3.Const("dom", z3.ArraySort(T.Atom, z3.BoolSort()))
    val = z3.Const("val", z3.ArraySort(T.Atom, z3.RealSort()))
    f = z3.Lambda([_a], z3.Select(val, _a) * T.MASS(_a))
    M = spec.SumOver(st, dom, f, T.Atom)
    st.assume(M != 0)
    c = 1 / M
    cf = z3.Lambda([_a], c * z3.Select(f, _a))
    # instance of L_SUM_HOMOGENEOUS (proved above by induction) at (dom, f, c)
    st.assume(spec.SumOver(st, dom, cf, T.Atom) == c * M)
    frac = z3.Lambda([_a], z3.Select(val, _a) * T.MASS(_a) / M)
    # pointwise equality of the two summands (congruence of SumOver under extensional equality)
    k = z3.Const("k!cong", T.Atom)
    st.oblige("summands-agree", z3.simplify(z3.Select(frac, k)) == z3.simplify(z3.Select(cf, k)), kind="lemma",
              assume_after=False)
    # extensionality: point-wise equal families are the same family
    st.assume(spec.canon_array(st, frac) == spec.canon_array(st, cf))
    st.oblige("fractions-sum-to-one", spec.SumOver(st, dom, frac, T.Atom) == 1, kind="lemma")
    return [st]


L_FRACTIONS = Lemma("mass_fraction.sum-to-one", lemma_mass_fractions_sum_to_one)


# ------------------------------------------------------------------------------ concat lemma (L2)

def lemma_concat():
    """den(concat(A,B), x) == den(A,x) + den(B,x) and sup likewise; two prefix inductions"""
    A, B = z3.Const("A", T.Seq), z3.Const("B", T.Seq)
    x = z3.Const("x", T.Atom)
    states = []

    def setup():
        st = State()
        st.ghost["concat_items"] = True
        a = VSym(A, SEQS)
        b = VSym(B, SEQS)
        st.assume(SEQS.wf(A))
        st.assume(SEQS.wf(B))
        c = SEQS.concat(None, st, a, b).expr
        return st, c
    la = T.SLEN(A)
    # Q(i), 0 <= i <= len A : prefix of the concatenation agrees with prefix of A
    st, c = setup()
    SEQS.base_prefix(st, c, x)
    SEQS.base_prefix(st, A, x)
    st.oblige("Q.base", z3.And(T.DENP(c, 0, x) == T.DENP(A, 0, x), T.SUPP(c, 0, x) == T.SUPP(A, 0, x)), kind="lemma")
    states.append(st)
    st, c = setup()
    i = z3.Int("i")
    st.assume(z3.And(i >= 0, i < la))
    st.assume(z3.And(T.DENP(c, i, x) == T.DENP(A, i, x), T.SUPP(c, i, x) == T.SUPP(A, i, x)))
    SEQS.unfold_prefix(st, c, i, x)
    SEQS.unfold_prefix(st, A, i, x)
    st.oblige("Q.step", z3.And(T.DENP(c, i + 1, x) == T.DENP(A, i + 1, x),
                               T.SUPP(c, i + 1, x) == T.SUPP(A, i + 1, x)), kind="lemma")
    states.append(st)
    # P(j), 0 <= j <= len B : prefix la+j of the concatenation = den(A) + prefix j of B
    st, c = setup()
    SEQS.whole(st, A, x)
    SEQS.base_prefix(st, B, x)
    st.assume(z3.And(T.DENP(c, la, x) == T.DENP(A, la, x), T.SUPP(c, la, x) == T.SUPP(A, la, x)))   # Q(len A)
    st.oblige("P.base", z3.And(T.DENP(c, la + 0, x) == T.DEN(A, x) + T.DENP(B, 0, x),
                               T.SUPP(c, la + 0, x) == z3.Or(T.SUP(A, x), T.SUPP(B, 0, x))), kind="lemma")
    states.append(st)
    st, c = setup()
    j = z3.Int("j")
    st.assume(z3.And(j >= 0, j < T.SLEN(B)))
    st.assume(z3.And(T.DENP(c, la + j, x) == T.DEN(A, x) + T.DENP(B, j, x),
                     T.SUPP(c, la + j, x) == z3.Or(T.SUP(A, x), T.SUPP(B, j, x))))
    SEQS.unfold_prefix(st, c, la + j, x)
    SEQS.unfold_prefix(st, B, j, x)
    st.oblige("P.step", z3.And(T.DENP(c, la + j + 1, x) == T.DEN(A, x) + T.DENP(B, j + 1, x),
                               T.SUPP(c, la + j + 1, x) == z3.Or(T.SUP(A, x), T.SUPP(B, j + 1, x))), kind="lemma")
    states.append(st)
    # conclusion from P(len B)
    st, c = setup()
    SEQS.whole(st, c, x)
    SEQS.whole(st, B, x)
    lb = T.SLEN(B)
    st.assume(z3.And(T.DENP(c, la + lb, x) == T.DEN(A, x) + T.DENP(B, lb, x),
                     T.SUPP(c, la + lb, x) == z3.Or(T.SUP(A, x), T.SUPP(B, lb, x))))
    st.oblige("conclusion", z3.And(T.DEN(c, x) == T.DEN(A, x) + T.DEN(B, x),
                                   T.SUP(c, x) == z3.Or(T.SUP(A, x), T.SUP(B, x))), kind="lemma")
    states.append(st)
    return states


L_CONCAT = Lemma("denote.concat", lemma_concat,
                 doc="composition of a concatenation is the sum of the compositions")


def use_concat(st, A, B, x):
    """instance of L_CONCAT (proved) at (A, B, x)"""
    c = T.CONCAT(A, B)
    st.assume(z3.And(T.DEN(c, x) == T.DEN(A, x) + T.DEN(B, x), T.SUP(c, x) == z3.Or(T.SUP(A, x), T.SUP(B, x))))


# ------------------------------------------------------------------------------ __add__, __iadd__, __rmul__

def _binop_inputs(st, interp):
    use_state(st)
    f = new_formula(st, "self")
    g = new_formula(st, "other")
    return [f, g], {}, {"self": f, "other": g, "S": f.attrs["structure"].expr, "G": g.attrs["structure"].expr,
                        "snap_self": dict(f.attrs), "snap_other": dict(g.attrs)}


def _result_structure_sum(st, interp, C, struct_value, label):
    S, G = C["S"], C["G"]

    def inst(st_, x):
        use_concat(st_, S, G, x)
        use_concat(st_, G, S, x)
    A = atoms_of_value(interp, st, struct_value)
    want = atoms_map(z3.Lambda([_a], z3.Or(T.SUP(S, _a), T.SUP(G, _a))),
                     z3.Lambda([_a], T.DEN(S, _a) + T.DEN(G, _a)), inst=inst)
    st.oblige("post.%s-atoms-are-sum-of-operands" % label, spec.eq_goal(interp, st, A, want))


def _add_post(st, interp, C, res):
    if res.outcome == "raise":
        st.oblige("never-raises-for-formula-operands", False, kind="raises", info={"exc": res.exc})
        return
    r = res.value
    ok = isinstance(r, VObj) and r.cls == FCLS and r is not C["self"] and r is not C["other"]
    st.oblige("post.result-is-a-new-formula", z3.BoolVal(bool(ok)))
    if not ok:
        return
    _result_structure_sum(st, interp, C, r.attrs["structure"], "sum")
    rs = r.attrs["structure"]
    st.oblige("post.result-structure-is-a-tuple", z3.BoolVal(getattr(rs, "kind", None) == "tuple" or isinstance(rs, VTuple)))
    frame_unchanged(st, C["self"], C["snap_self"], "self")
    frame_unchanged(st, C["other"], C["snap_other"], "other")


U_ADD = Unit("Formula.__add__", F + "__add__", _binop_inputs, _add_post,
             contracts=CALLEE, inline={F + "__init__"}, replay={"module": "c02", "task": "replay"})


def _add_bad_inputs(st, interp):
    use_state(st)
    f = new_formula(st, "self")
    other = st.fresh("other", z3.RealSort())
    return [f, other], {}, {"self": f, "snap_self": dict(f.attrs)}


def _add_bad_post(st, interp, C, res):
    st.oblige("post.non-formula-operand-raises-TypeError",
              z3.BoolVal(res.outcome == "raise" and res.exc == "TypeError"), kind="raises")
    frame_unchanged(st, C["self"], C["snap_self"], "self")


U_ADD_BAD = Unit("Formula.__add__[non-formula]", F + "__add__", _add_bad_inputs, _add_bad_post,
                 contracts=CALLEE, inline={F + "__init__"})


def _iadd_post(st, interp, C, res):
    if res.outcome == "raise":
        st.oblige("never-raises-for-formula-operands", False, kind="raises", info={"exc": res.exc})
        return
    st.oblige("post.returns-self", z3.BoolVal(res.value is C["self"]))
    _result_structure_sum(st, interp, C, C["self"].attrs["structure"], "updated-self")
    others = {k: v for k, v in C["snap_self"].items() if k != "structure"}
    same = all(C["self"].attrs.get(k) is v for k, v in others.items()) and set(C["self"].attrs) == set(C["snap_self"])
    st.oblige("frame.self-only-structure-changed", z3.BoolVal(bool(same)), kind="frame")
    frame_unchanged(st, C["other"], C["snap_other"], "other")


U_IADD = Unit("Formula.__iadd__", F + "__iadd__", _binop_inputs, _iadd_post, contracts=CALLEE, writes={"structure"},
              replay={"module": "c02", "task": "replay"})


def _rmul_inputs(st, interp):
    use_state(st)
    f = new_formula(st, "self")
    n = st.fresh("n", z3.RealSort())
    st.assume(n >= 0)
    return [f, n], {}, {"self": f, "n": n, "S": f.attrs["structure"].expr, "snap_self": dict(f.attrs)}


def _rmul_post(st, interp, C, res):
    if res.outcome == "raise":
        st.oblige("never-raises-for-numeric-multiplier", False, kind="raises", info={"exc": res.exc})
        return
    r = res.value
    ok = isinstance(r, VObj) and r.cls == FCLS and r is not C["self"]
    st.oblige("post.result-is-a-new-formula", z3.BoolVal(bool(ok)))
    if not ok:
        return
    S, n = C["S"], C["n"]
    x = st.fresh("x_sk", T.Atom)
    T.unfold_small(st, SEQS, S, x, upto=2)
    have = T.den_of(interp, st, r.attrs["structure"], x)
    st.oblige("post.atoms-are-n-times-operand", have == n * T.DEN(S, x))
    st.oblige("post.density-and-name-copied", z3.BoolVal(
        r.attrs.get("density") is C["snap_self"]["density"] and r.attrs.get("name") is C["snap_self"]["name"]))
    frame_unchanged(st, C["self"], C["snap_self"], "self")


U_RMUL = Unit("Formula.__rmul__", F + "__rmul__", _rmul_inputs, _rmul_post, contracts=CALLEE,
              replay={"module": "c02", "task": "replay"})


def _rmul_bad_inputs(st, interp):
    use_state(st)
    f = new_formula(st, "self")
    return [f, None], {}, {"self": f, "snap_self": dict(f.attrs)}


def _rmul_bad_post(st, interp, C, res):
    st.oblige("post.non-numeric-multiplier-raises-TypeError",
              z3.BoolVal(res.outcome == "raise" and res.exc == "TypeError"), kind="raises")
    frame_unchanged(st, C["self"], C["snap_self"], "self")


U_RMUL_BAD = Unit("Formula.__rmul__[non-numeric]", F + "__rmul__", _rmul_bad_inputs, _rmul_bad_post,
                  contracts=CALLEE)


# ------------------------------------------------------------------------------ Ion.mass (core.py)

def _ionmass_inputs(st, interp):
    use_state(st)
    el = st.fresh("element", T.Atom)
    q = st.fresh("charge", z3.IntSort())
    ion = VObj((CORE, "Ion"), {"element": VSym(el, ATOMS), "charge": q})
    return [ion], {}, {"el": el, "q": q}


def _ionmass_post(st, interp, C, res):
    if res.outcome == "raise":
        st.oblige("never-raises", False, kind="raises", info={"exc": res.exc})
        return
    st.oblige("post.ion-mass-is-atom-mass-less-charge-electron-masses",
              spec.eq_goal(interp, st, res.value, T.MASS(C["el"]) - z3.RealVal(ATOMS.me) * z3.ToReal(C["q"])))


U_ION_MASS = Unit("Ion.mass", CORE + ".Ion.mass", _ionmass_inputs, _ionmass_post,
                  doc="justifies the ion clause of the atom theory's well-formedness (L4)")


# ==============================================================================  C12
# natural mass of an atom: the isotope replaced by its natural element, ion charge kept
#   element e          -> mass(e)
#   isotope i of e     -> mass(e)
#   ion of element e   -> mass(e) - q m_e       ( == mass(ion) )
#   ion of isotope i   -> mass(element(i)) - q m_e

def natural_mass(a):
    b = T.BASE(a)
    me = z3.RealVal(ATOMS.me)
    return z3.If(T.KIND(a) == 0, T.MASS(a),
                 z3.If(T.KIND(a) == 1, T.MASS(b),
                       z3.If(T.KIND(b) == 0, T.MASS(b) - me * z3.ToReal(T.CHARGE(a)),
                             T.MASS(T.BASE(b)) - me * z3.ToReal(T.CHARGE(a)))))


def natural_sum(st, A):
    return spec.SumOver(st, A.dom, z3.Lambda([_a], z3.Select(A.val, _a) * natural_mass(_a)), T.Atom)


def isotope_sum(st, A):
    return spec.SumOver(st, A.dom, z3.Lambda([_a], z3.Select(A.val, _a) * T.MASS(_a)), T.Atom)


def _nmr_inputs(st, interp):
    args, kw, C = _self_inputs("known")(st, interp)
    A = denotation_map(st, C["S"])
    C["nat"], C["iso"] = natural_sum(st, A), isotope_sum(st, A)
    st.assume(C["iso"] > 0)      # a formula with positive mass (instance of SumOver.positive)
    return args, kw, C


def _nmr_post(st, interp, C, res):
    if res.outcome == "raise":
        st.oblige("never-raises", False, kind="raises", info={"exc": res.exc})
        return
    st.oblige("post.ratio == natural mass (ion charges kept) / actual mass",
              spec.eq_goal(interp, st, res.value, C["nat"] / C["iso"]))


def _nmr_defs():
    def nat(E):
        A = E.it
        return spec.SumOver(E.st, E.V, z3.Lambda([_a], z3.Select(A.val, _a) * natural_mass(_a)), T.Atom)

    def iso(E):
        A = E.it
        return spec.SumOver(E.st, E.V, z3.Lambda([_a], z3.Select(A.val, _a) * T.MASS(_a)), T.Atom)
    return {"total_natural_mass": nat, "total_isotope_mass": iso}


def c_ion_of_valid(interp, st, args, kw):
    """base.ion[q] for a charge q carried by an ion of base (or of one of its isotopes): defined by
    the table invariant L1 (isotopes share their element's ion list), so it never raises here"""
    from . import core as KC
    a = args[0].attrs["atom"].expr
    q = to_z3num(interp.resolve(st, args[1]))
    e = KC.ION_OF(a, q)
    st.assume(z3.And(T.KIND(e) == 2, T.BASE(e) == a, T.CHARGE(e) == q, T.NUMBER(e) == T.NUMBER(a), T.ISO(e) == T.ISO(a)))
    return ATOMS.sym(st, e)


def _nmr_inputs2(st, interp):
    from . import core as KC
    r = _nmr_inputs(st, interp)
    st.ghost["atom_attr"] = KC._atom_attr
    return r


U_NAT_RATIO = Unit("Formula.natural_mass_ratio", F + "natural_mass_ratio", _nmr_inputs2, _nmr_post,
                   contracts=dict(CALLEE, **{"IonSetOf.__getitem__": c_ion_of_valid}),
                   inline={CORE + ".ision", CORE + ".isisotope"}, loops={(F + "natural_mass_ratio", 1): {"iter": "self.atoms.items()", "define": _nmr_defs()}},
                   replay={"module": "c12", "task": "replay"})


def c_natural_mass_ratio(interp, st, args, kw):
    self = args[0]
    A = c_atoms_getter(interp, st, [self], {})
    return natural_sum(st, A) / isotope_sum(st, A)


CALLEE_RATIO = dict(CALLEE)
CALLEE_RATIO[F + "natural_mass_ratio"] = c_natural_mass_ratio


def _nd_inputs(st, interp):
    args, kw, C = _nmr_inputs(st, interp)
    st.assume(C["nat"] > 0)
    return args, kw, C


def _ndget_post(st, interp, C, res):
    if res.outcome == "raise":
        st.oblige("never-raises-when-density-known", False, kind="raises", info={"exc": res.exc})
        return
    rho = C["self"].attrs["density"]
    st.oblige("post.natural_density == density * natural mass / actual mass",
              spec.eq_goal(interp, st, res.value, rho * (C["nat"] / C["iso"])))
    frame_unchanged(st, C["self"], C["snapshot"])


U_NATDENS_GET = Unit("Formula.natural_density[get]", F + "natural_density", _nd_inputs, _ndget_post,
                     contracts=CALLEE_RATIO, replay={"module": "c12", "task": "replay"})


def _ndset_inputs(st, interp):
    args, kw, C = _nd_inputs(st, interp)
    v = st.fresh("natural_density", z3.RealSort())
    st.assume(v > 0)
    C["v"] = v
    return args + [v], kw, C


def _ndset_post(st, interp, C, res):
    if res.outcome == "raise":
        st.oblige("never-raises", False, kind="raises", info={"exc": res.exc})
        return
    rho = C["self"].attrs["density"]
    st.oblige("post.setting natural density then reading it back is the identity",
              spec.eq_goal(interp, st, to_real(rho) * (C["nat"] / C["iso"]), C["v"]))
    others = all(C["self"].attrs[k] is C["snapshot"][k] for k in C["snapshot"] if k != "density")
    st.oblige("frame.only-density-changed", z3.BoolVal(bool(others)), kind="frame")


U_NATDENS_SET = Unit("Formula.natural_density[set]", F + "natural_density@setter", _ndset_inputs, _ndset_post,
                     contracts=CALLEE_RATIO, writes={"density"}, replay={"module": "c12", "task": "replay"})


# ---- Formula.__init__ : density precedence and the single-atom default

def _init_inputs(mode):
    def mk(st, interp):
        use_state(st)
        s = SEQS.new(st, "structure")
        s.kind = "tuple"
        obj = VObj(FCLS, {})
        kw = {"structure": s}
        C = {"S": s.expr, "obj": obj, "mode": mode}
        A = denotation_map(st, s.expr)
        C["nat"], C["iso"] = natural_sum(st, A), isotope_sum(st, A)
        st.assume(z3.And(C["iso"] > 0, C["nat"] > 0))
        if mode in ("density", "natural_density"):
            v = st.fresh(mode, z3.RealSort())
            st.assume(v > 0)
            kw[mode] = v
            C["v"] = v
        return [obj], kw, C
    return mk


def _init_post(st, interp, C, res):
    if res.outcome == "raise":
        st.oblige("never-raises", False, kind="raises", info={"exc": res.exc})
        return
    obj = C["obj"]
    rho = obj.attrs.get("density", "missing")
    st.oblige("post.structure-stored", z3.BoolVal(isinstance(obj.attrs.get("structure"), VSym)
                                                   and z3.eq(obj.attrs["structure"].expr, C["S"])))
    if C["mode"] == "density":
        st.oblige("post.density keyword sets the density", spec.eq_goal(interp, st, rho, C["v"]))
    elif C["mode"] == "natural_density":
        st.oblige("post.natural_density keyword: density * natural/actual == given value",
                  spec.eq_goal(interp, st, to_real(rho) * (C["nat"] / C["iso"]), C["v"]))
    else:
        A = denotation_map(st, C["S"])
        card = shims.card_of(interp, st, A)
        k = st.fresh("the_atom", T.Atom)
        single = z3.And(card == 1, z3.Select(A.dom, k))
        if rho is None or isinstance(rho, VOpt):
            isnone = z3.BoolVal(True) if rho is None else rho.is_none
            val = None if rho is None else rho.val
            st.oblige("post.no density keyword: density is the atom's for a single-atom formula, else None",
                      z3.And(z3.Implies(z3.Not(card == 1), isnone),
                             z3.Implies(single, z3.And(isnone == T.DENS_NONE(k),
                                                       z3.Implies(z3.Not(isnone), (val if val is not None else z3.RealVal(0)) == T.DENS(k))))))
        else:
            st.oblige("post.no density keyword: density is the atom's for a single-atom formula, else None",
                      z3.And(card == 1, z3.Implies(single, z3.And(z3.Not(T.DENS_NONE(k)), to_real(rho) == T.DENS(k)))))


from pyvc import shims  # noqa
U_INIT = [Unit("Formula.__init__[%s]" % m, F + "__init__", _init_inputs(m), _init_post,
               contracts=CALLEE_RATIO, inline={F + "natural_density@setter"}, writes={"structure", "name", "density"},
               replay={"module": "c12", "task": "replay"})
          for m in ("density", "natural_density", "default")]


# ---- util.cell_volume and Formula.volume

UTIL = "periodictable.util"


def _cv_inputs(nargs, angles):
    def mk(st, interp):
        names = ["a", "b", "c"][:nargs]
        vals = {}
        for n in names:
            vals[n] = st.fresh(n, z3.RealSort())
            st.assume(vals[n] > 0)
        kw = dict(vals)
        ang = {}
        for n in ["alpha", "beta", "gamma"][:angles]:
            ang[n] = st.fresh(n, z3.RealSort())
            st.assume(z3.And(ang[n] > 0, ang[n] < 180))
            kw[n] = ang[n]
        C = {"len": vals, "ang": ang}
        return [], kw, C
    return mk


def _cosd(st, x):
    """cos(radians(x)) of the specification: the same opaque function as the code's, with the same facts (range, the exact
    values at the crystallographic angles) - a special case in the code that uses such a fact must not look like a deviation"""
    from pyvc import shims as S
    r = S.COSD_F(to_real(x))
    st.assume(z3.And(r >= -1, r <= 1))
    for deg, val in ((0, "1"), (60, "1/2"), (90, "0"), (120, "-1/2"), (180, "-1")):
        st.assume(S.COSD_F(z3.RealVal(deg)) == z3.RealVal(val))
    return r


def _cv_post(st, interp, C, res):
    if res.outcome == "raise":
        # math.sqrt of a negative argument: not a valid cell
        st.oblige("raises only for an invalid cell", z3.BoolVal(res.exc == "ValueError"), kind="raises", info={"exc": res.exc})
        return
    L, A = C["len"], C["ang"]
    a = L["a"]
    b = L.get("b", a)
    c = L.get("c", a)
    ca = _cosd(st, A["alpha"]) if "alpha" in A else z3.RealVal(0)
    cb = _cosd(st, A["beta"]) if "beta" in A else ca
    cg = _cosd(st, A["gamma"]) if "gamma" in A else ca
    rad = 1 - ca * ca - cb * cb - cg * cg + 2 * ca * cb * cg
    v = to_real(res.value)
    st.oblige("post.V == a b c sqrt(1 - cos^2 alpha - cos^2 beta - cos^2 gamma + 2 cos alpha cos beta cos gamma)",
              z3.And(v >= 0, v * v == a * a * b * b * c * c * rad))


U_CELL_VOLUME = [Unit("util.cell_volume[%d lengths, %d angles]" % (n, k), UTIL + ".cell_volume", _cv_inputs(n, k), _cv_post,
                      replay={"module": "c12", "task": "replay"})
                 for n, k in ((1, 0), (3, 0), (1, 1), (3, 3), (2, 2))]


def _cv_missing_inputs(st, interp):
    return [], {}, {}


def _cv_missing_post(st, interp, C, res):
    st.oblige("post.missing lattice parameter raises TypeError", z3.BoolVal(res.outcome == "raise" and res.exc == "TypeError"), kind="raises")


U_CELL_VOLUME_MISSING = Unit("util.cell_volume[no parameters]", UTIL + ".cell_volume", _cv_missing_inputs, _cv_missing_post)


def _vol_inputs(mode):
    def mk(st, interp):
        use_state(st)
        f = new_formula(st, "self")
        C = {"self": f, "S": f.attrs["structure"].expr, "mode": mode, "snapshot": dict(f.attrs)}
        args, kw = [f], {}
        if mode == "pf-number-positional":
            pf = st.fresh("packing_factor", z3.RealSort())
            st.assume(pf > 0)
            args.append(pf)
            C["pf"] = pf
        elif mode == "pf-number-keyword":
            pf = st.fresh("packing_factor", z3.RealSort())
            st.assume(pf > 0)
            kw["packing_factor"] = pf
            C["pf"] = pf
        elif mode.startswith("pf-name:"):
            kw["packing_factor"] = mode.split(":", 1)[1]
        elif mode == "default":
            pass
        # every atom of the formula has a covalent radius (otherwise None**3 raises: not in the quantifier)
        st.ghost["atom_attr"] = _radius_known
        return args, kw, C
    return mk


def _radius_known(interp, st, v, name, node):
    return NotImplemented


def _vol_post(st, interp, C, res):
    from pyvc import shims as S
    if res.outcome == "raise":
        A = denotation_map(st, C["S"])
        ex = z3.Const("a!ex", T.Atom)
        st.oblige("raises only if some atom has no covalent radius",
                  z3.And(z3.BoolVal(res.exc == "TypeError"),
                         z3.Exists([ex], z3.And(z3.Select(A.dom, ex), T.COVR_NONE(ex)))), kind="raises", info={"exc": res.exc})
        return
    A = denotation_map(st, C["S"])
    V = spec.SumOver(st, A.dom, z3.Lambda([_a], T.COVR(_a) * T.COVR(_a) * T.COVR(_a) * z3.Select(A.val, _a)), T.Atom)
    pi = S.PI
    mode = C["mode"]
    doc_pf = {"cubic": lambda: pi / 6, "bcc": lambda: pi * S.SQRT_F(z3.RealVal(3)) / 8,
              "hcp": lambda: pi / S.SQRT_F(z3.RealVal(18)), "fcc": lambda: pi / S.SQRT_F(z3.RealVal(18)),
              "diamond": lambda: pi * S.SQRT_F(z3.RealVal(3)) / 16}
    if "pf" in C:
        pf = C["pf"]
    elif mode == "default":
        pf = doc_pf["hcp"]()
    else:
        pf = doc_pf[mode.split(":", 1)[1].lower()]()
    for x in (3, 18):
        r = S.SQRT_F(z3.RealVal(x))
        st.assume(z3.And(r > 0, r * r == x))
    st.oblige("post.volume == (4 pi/3) sum n r_cov^3 / packing_factor * 1e-24",
              spec.eq_goal(interp, st, res.value, 4 * pi / 3 * V / pf * z3.RealVal("1e-24")))
    frame_unchanged(st, C["self"], C["snapshot"])


def _vol_loop(E):
    A = E.it
    return spec.SumOver(E.st, E.V, z3.Lambda([_a], T.COVR(_a) * T.COVR(_a) * T.COVR(_a) * z3.Select(A.val, _a)), T.Atom)


def _vol_inv(E):
    return []


_VOL_MODES = ["default", "pf-number-positional", "pf-number-keyword", "pf-name:cubic", "pf-name:bcc", "pf-name:hcp",
              "pf-name:fcc", "pf-name:diamond", "pf-name:BCC", "pf-name:Diamond"]
U_VOLUME = [Unit("Formula.volume[%s]" % m, F + "volume", _vol_inputs(m), _vol_post, contracts=CALLEE,
                 loops={(F + "volume", 1): {"iter": "self.atoms.items()", "define": {"V": _vol_loop}}},
                 replay={"module": "c12", "task": "replay"}) for m in _VOL_MODES]


# ---- _isotope_substitution / Formula.replace

def c_formula_from_dict(interp, st, args, kw):
    """formula(atoms_dict, density=d): a formula whose atoms are those of the dict and whose density is d
    (formula() dict route -> _convert_to_hill_notation keeps the composition: units in C19)"""
    m = interp.resolve(st, args[0])
    if not isinstance(m, VMap):
        raise Unsupported("formula() callee contract expects an atom map here")
    return VObj("FormulaOfMap", {"__atoms__": VMap(m.dom, m.val, m.ksort, m.vsort, m.wrap, m.inst),
                                 "density": kw.get("density")})


def _sub_inputs(st, interp):
    use_state(st)
    f = new_formula(st, "compound")
    src = ATOMS.new(st, "source")
    tgt = ATOMS.new(st, "target")
    p = st.fresh("portion", z3.RealSort())
    st.assume(z3.And(p >= 0, p <= 1, src.expr != tgt.expr))
    A = denotation_map(st, f.attrs["structure"].expr)
    M = mass_spec(st, A)
    st.assume(M > 0)
    return [f, src, tgt], {"portion": p}, {"f": f, "src": src.expr, "tgt": tgt.expr, "p": p, "A": A, "M": M,
                                           "snapshot": dict(f.attrs)}


def _sub_post(st, interp, C, res):
    f, s, t, p, A, M = C["f"], C["src"], C["tgt"], C["p"], C["A"], C["M"]
    if res.outcome == "raise":
        st.oblige("never-raises (unknown density stays unknown)", False, kind="raises", info={"exc": res.exc})
        return
    r = res.value
    ok = isinstance(r, VObj) and "__atoms__" in r.attrs
    st.oblige("post.returns-formula", z3.BoolVal(ok))
    if not ok:
        return
    B = r.attrs["__atoms__"]
    k = st.fresh("a_sk", T.Atom)
    if A.inst:
        A.inst(st, k)
    ns = z3.Select(A.val, s)
    has_s = z3.Select(A.dom, s)
    old = z3.If(z3.Select(A.dom, k), z3.Select(A.val, k), z3.RealVal(0))
    new = z3.If(z3.Select(B.dom, k), z3.Select(B.val, k), z3.RealVal(0))
    want = z3.If(has_s,
                 z3.If(k == t, old + p * ns, z3.If(k == s, (1 - p) * ns, old)),
                 old)
    st.oblige("post.counts: target += portion*n_source, source *= (1-portion), all others unchanged", new == want)
    st.oblige("post.membership: source removed exactly at portion 1; target present when source was; others unchanged",
              z3.Select(B.dom, k) == z3.If(has_s, z3.If(k == t, z3.BoolVal(True),
                                                        z3.If(k == s, p != 1, z3.Select(A.dom, k))),
                                           z3.Select(A.dom, k)))
    rho0 = f.attrs["density"]
    rho1 = r.attrs["density"]
    rho1 = interp.resolve(st, rho1) if isinstance(rho1, VOpt) else rho1
    none0 = rho0.is_none
    if rho1 is None:
        st.oblige("post.density unknown only if it was unknown", none0)
    else:
        st.oblige("post.density known only if it was known", z3.Not(none0))
        newmass = M - z3.If(has_s, ns * p * (T.MASS(s) - T.MASS(t)), z3.RealVal(0))
        st.oblige("post.density scales with the mass at fixed cell volume: rho' == rho * mass'/mass",
                  to_real(rho1) * M == rho0.val * newmass)
    frame_unchanged(st, f, C["snapshot"], "compound")


U_SUBSTITUTION = Unit("_isotope_substitution", FORMULAS + "._isotope_substitution", _sub_inputs, _sub_post,
                      contracts=dict(CALLEE_MASS, **{FORMULAS + ".formula": c_formula_from_dict}),
                      replay={"module": "c12", "task": "replay"})


# ==============================================================================  more L3 lemmas

def lemma_sum_additive():
    """SumOver(S, f+g) == SumOver(S,f) + SumOver(S,g)  (set-insertion induction)"""
    f = z3.Const("f", z3.ArraySort(T.Atom, z3.RealSort()))
    g = z3.Const("g", z3.ArraySort(T.Atom, z3.RealSort()))
    fg = z3.Lambda([_a], z3.Select(f, _a) + z3.Select(g, _a))
    states = []
    st = State()
    e = z3.K(T.Atom, z3.BoolVal(False))
    st.oblige("base", spec.SumOver(st, e, fg, T.Atom) == spec.SumOver(st, e, f, T.Atom) + spec.SumOver(st, e, g, T.Atom), kind="lemma")
    states.append(st)
    st = State()
    V = z3.Const("V", z3.ArraySort(T.Atom, z3.BoolSort()))
    k = z3.Const("k", T.Atom)
    st.assume(z3.Not(z3.Select(V, k)))
    st.assume(spec.SumOver(st, V, fg, T.Atom) == spec.SumOver(st, V, f, T.Atom) + spec.SumOver(st, V, g, T.Atom))
    V2 = z3.Store(V, k, z3.BoolVal(True))
    st.oblige("step", spec.SumOver(st, V2, fg, T.Atom) == spec.SumOver(st, V2, f, T.Atom) + spec.SumOver(st, V2, g, T.Atom), kind="lemma")
    states.append(st)
    return states


L_SUM_ADDITIVE = Lemma("SumOver.additive", lemma_sum_additive)


def lemma_sum_support():
    """if f vanishes outside S then SumOver(U, f) == SumOver(S, f) for every finite U containing S
    (induction on the insertions that lead from S to U)"""
    f = z3.Const("f", z3.ArraySort(T.Atom, z3.RealSort()))
    S = z3.Const("S", z3.ArraySort(T.Atom, z3.BoolSort()))
    states = []
    st = State()
    st.oblige("base", spec.SumOver(st, S, f, T.Atom) == spec.SumOver(st, S, f, T.Atom), kind="lemma")
    states.append(st)
    st = State()
    U = z3.Const("U", z3.ArraySort(T.Atom, z3.BoolSort()))
    k = z3.Const("k", T.Atom)
    st.assume(z3.And(z3.Not(z3.Select(U, k)), z3.Not(z3.Select(S, k)), z3.Select(f, k) == 0))
    st.assume(spec.SumOver(st, U, f, T.Atom) == spec.SumOver(st, S, f, T.Atom))
    st.oblige("step", spec.SumOver(st, z3.Store(U, k, z3.BoolVal(True)), f, T.Atom) == spec.SumOver(st, S, f, T.Atom), kind="lemma")
    states.append(st)
    return states


L_SUM_SUPPORT = Lemma("SumOver.support-extension", lemma_sum_support)


def linear_combination_sum(st, parts, weight_fn, name):
    """The three L3 lemmas (homogeneous, additive, support-extension; each proved by induction) give,
    for maps A_i = (dom_i, val_i) whose values vanish outside their domain and weights c_i:

        SumOver(U dom_i, lambda a. w(a) * sum_i c_i*val_i(a))  ==  sum_i c_i * SumOver(dom_i, lambda a. w(a)*val_i(a))

    Returns (lhs term, rhs term) and assumes their equality as an instance of those lemmas.
    parts: list of (c_i, VMap A_i); weight_fn(a) -> z3 real (e.g. the atomic mass)."""
    doms = [A.dom for _, A in parts]
    U = z3.Lambda([_a], z3.Or([z3.Select(d, _a) for d in doms]))
    comb = z3.Lambda([_a], weight_fn(_a) * z3.Sum([to_real(c) * z3.If(z3.Select(A.dom, _a), z3.Select(A.val, _a), z3.RealVal(0))
                                                     for c, A in parts]))
    lhs = spec.SumOver(st, U, comb, T.Atom)
    rhs = z3.Sum([to_real(c) * spec.SumOver(st, A.dom, z3.Lambda([_a], weight_fn(_a) * z3.Select(A.val, _a)), T.Atom)
                  for c, A in parts])
    st.assume(lhs == rhs)
    st.assumptions_used.add("instance of lemmas SumOver.homogeneous/additive/support-extension (%s)" % name)
    return lhs, rhs


# ==============================================================================  formula(): Formula argument

def c_formula_class(interp, st, args, kw):
    """Formula(structure=, name=, density=, natural_density=): records its keywords (units Formula.__init__[...])"""
    rec = {"structure": VTuple([]), "density": None, "natural_density": None, "name": None}   # the defaults of Formula.__init__
    for k, v in zip(("structure", "density", "natural_density", "name"), args):
        rec[k] = v
    rec.update(kw)
    return VObj("FormulaCtor", rec)


def _ff_inputs(mode):
    def mk(st, interp):
        use_state(st)
        src = new_formula(st, "compound")
        kw = {}
        C = {"src": src, "mode": mode, "snapshot": dict(src.attrs)}
        for k in ("density", "natural_density"):
            if k in mode:
                kw[k] = st.fresh(k, z3.RealSort())
                st.assume(kw[k] > 0)
                C[k] = kw[k]
        return [src], kw, C
    return mk


def _ff_post(st, interp, C, res):
    if res.outcome == "raise":
        st.oblige("never-raises", False, kind="raises", info={"exc": res.exc})
        return
    r, src, mode = res.value, C["src"], C["mode"]
    ok = isinstance(r, VObj) and r.cls == "FormulaCtor"
    st.oblige("post.builds a new Formula", z3.BoolVal(ok))
    if not ok:
        return
    st.oblige("post.same structure as the source formula", z3.BoolVal(r.attrs.get("structure") is src.attrs["structure"]))
    d, nd = r.attrs.get("density"), r.attrs.get("natural_density")
    if not mode:
        st.oblige("post.no density keyword: the source density is inherited",
                  z3.BoolVal(d is src.attrs["density"] and nd is None))
    else:
        if "density" in mode:
            st.oblige("post.density= keyword wins over the source density", spec.eq_goal(interp, st, d, C["density"]))
        else:
            st.oblige("post.only natural_density= given: no isotopic density is passed on (the source density must not override it)",
                      z3.BoolVal(d is None))
        if "natural_density" in mode:
            st.oblige("post.natural_density= keyword is passed on", spec.eq_goal(interp, st, nd, C["natural_density"]))
    frame_unchanged(st, src, C["snapshot"], "source")


U_FORMULA_OF_FORMULA = [Unit("formula(Formula%s)" % ("".join(", %s=" % m for m in mode)), FORMULAS + ".formula", _ff_inputs(mode), _ff_post,
                             contracts={FORMULAS + ".Formula": c_formula_class}, inline={CORE + ".isatom"},
                             replay={"module": "c12", "task": "replay"})
                        for mode in ((), ("density",), ("natural_density",))]


# ==============================================================================  Formula.hill

def _hill_post(st, interp, C, res):
    if res.outcome == "raise":
        st.oblige("never-raises (the Hill form depends on the atoms only)", False, kind="raises", info={"exc": res.exc})
        return
    r = res.value
    ok = isinstance(r, VObj) and "__atoms__" in r.attrs
    st.oblige("post.hill is formula(atoms of self)", z3.BoolVal(ok))
    if ok:
        st.oblige("post.Hill form has exactly the atom counts of the formula",
                  spec.eq_goal(interp, st, r.attrs["__atoms__"], denotation_map(st, C["S"])))
    frame_unchanged(st, C["self"], C["snapshot"])


U_HILL = Unit("Formula.hill", F + "hill", _self_inputs(), _hill_post,
              contracts=dict(CALLEE, **{FORMULAS + ".formula": c_formula_from_dict}),
              replay={"module": "c19", "task": "replay"})


# ==============================================================================  formula(): the other initializer kinds

def c_hill_notation(interp, st, args, kw):
    """_convert_to_hill_notation(atoms): a structure holding exactly the entries of the map, Hill ordered
    (composition: eval family order_total + bounded hill; here only 'which function is called with what')"""
    return VObj("HillOf", {"map": args[0]})


def c_immutable_any(interp, st, args, kw):
    return VObj("Immutable", {"of": args[0]})


def _fk_inputs(kind0):
    def mk(st, interp):
        use_state(st)
        kind = kind0
        C = {"kind": kind}
        natural = kind.endswith("-natural") and not kind.startswith("string")
        if natural:
            kind = kind[:-len("-natural")]
            C["kind"], C["natural"] = kind, True
        if kind == "none":
            arg = None
        elif kind == "empty-string":
            arg = ""
        elif kind == "atom":
            arg = ATOMS.new(st, "atom")
            C["a"] = arg.expr
        elif kind == "dict":
            dom = st.fresh("d_dom", z3.ArraySort(T.Atom, z3.BoolSort()))
            val = st.fresh("d_val", z3.ArraySort(T.Atom, z3.RealSort()))
            arg = atoms_map(dom, val)
            C["map"] = arg
        elif kind == "sequence":
            arg = SEQS.new(st, "seq")
            arg.kind = "list"
            C["seq"] = arg
        elif kind.startswith("string"):
            # the text is opaque to formula() itself (it only asks whether it is empty or holds a ':'); what it means is the
            # parser's business (C01).  The parse result is an arbitrary Formula object carrying arbitrary recorded amounts.
            arg = "2g Co // 2g Ti"
            C["parsed"] = VObj("Parsed", {"name": None, "density": st.fresh("parsed_density", z3.RealSort()),
                                          "total_mass": st.fresh("parsed_total_mass", z3.RealSort()),
                                          "thickness": st.fresh("parsed_thickness", z3.RealSort())})
            C["parsed0"] = dict(C["parsed"].attrs)
            st.ghost["parse_result"] = C["parsed"]
            st.ghost["parse_calls"] = []
        C["arg"] = arg
        d = st.fresh("density", z3.RealSort())
        st.assume(d > 0)
        C["density"] = d
        if kind0.endswith("-natural"):
            return [arg], {"natural_density": d, "name": "nm"}, C
        if kind == "string-plain":
            return [arg], {}, C
        return [arg], {"density": d, "name": "nm"}, C
    return mk


def c_parse_formula_opaque(interp, st, args, kw):
    """parse_formula(text, table=): some Formula object (what it holds is the parser's contract, C01)"""
    st.ghost["parse_calls"].append((args, kw))
    return st.ghost["parse_result"]


def _fk_string_post(st, interp, C, res):
    if res.outcome == "raise":
        st.oblige("never-raises when the parser accepts the text", False, kind="raises", info={"exc": res.exc})
        return
    r, kind, P = res.value, C["kind"], C["parsed"]
    calls = st.ghost["parse_calls"]
    st.oblige("post.the text is parsed once, as given", z3.BoolVal(len(calls) == 1 and len(calls[0][0]) == 1 and calls[0][0][0] == C["arg"]))
    st.oblige("post.formula(text, ...) IS the parser's result (recorded total_mass / thickness are carried, nothing is rebuilt)",
              z3.BoolVal(r is P))
    if r is not P:
        return
    for k in ("total_mass", "thickness"):
        st.oblige("post.recorded %s untouched" % k, z3.BoolVal(P.attrs.get(k) is C["parsed0"][k]))
    if kind == "string":
        st.oblige("post.density keyword is the density of the result", spec.eq_goal(interp, st, P.attrs.get("density"), C["density"]))
        st.oblige("post.name keyword is recorded", z3.BoolVal(P.attrs.get("name") == "nm"))
        st.oblige("post.no natural density is set when density= is given", z3.BoolVal("natural_density" not in P.attrs))
    elif kind == "string-natural":
        st.oblige("post.natural_density keyword is handed to the natural_density setter",
                  spec.eq_goal(interp, st, P.attrs.get("natural_density"), C["density"]))
        st.oblige("post.name keyword is recorded", z3.BoolVal(P.attrs.get("name") == "nm"))
    else:
        st.oblige("post.without keywords the parse result is returned unchanged",
                  z3.BoolVal(all(P.attrs.get(k) is v for k, v in C["parsed0"].items()) and set(P.attrs) == set(C["parsed0"])))


def _fk_post(st, interp, C, res):
    if res.outcome == "raise":
        st.oblige("never-raises for a valid initializer", False, kind="raises", info={"exc": res.exc})
        return
    r, kind = res.value, C["kind"]
    ok = isinstance(r, VObj) and r.cls == "FormulaCtor"
    st.oblige("post.builds a Formula", z3.BoolVal(ok))
    if not ok:
        return
    s = r.attrs.get("structure")
    if kind in ("none", "empty-string"):
        st.oblige("post.empty initializer gives the empty structure", z3.BoolVal(isinstance(s, VTuple) and len(s.items) == 0))
    elif kind == "atom":
        good = isinstance(s, VTuple) and len(s.items) == 1 and isinstance(s.items[0], VTuple) and len(s.items[0].items) == 2 \
            and isinstance(s.items[0].items[1], VSym)
        st.oblige("post.formula(atom) is ((1, atom),)",
                  z3.BoolVal(False) if not good else z3.And(to_real(s.items[0].items[0]) == 1, s.items[0].items[1].expr == C["a"]))
    elif kind == "dict":
        st.oblige("post.formula(dict) is the Hill-ordered structure of exactly that map",
                  z3.BoolVal(isinstance(s, VObj) and s.cls == "HillOf" and s.attrs["map"] is C["map"]))
    else:
        st.oblige("post.formula(sequence) is the immutable copy of exactly that sequence",
                  z3.BoolVal(isinstance(s, VObj) and s.cls == "Immutable" and s.attrs["of"] is C["seq"]))
    if C.get("natural"):
        st.oblige("post.natural_density keyword is passed on", spec.eq_goal(interp, st, r.attrs.get("natural_density"), C["density"]))
        st.oblige("post.no isotopic density is made up when only natural_density= is given",
                  z3.BoolVal(r.attrs.get("density") is None))
    else:
        st.oblige("post.density keyword is passed on", spec.eq_goal(interp, st, r.attrs.get("density"), C["density"]))
    st.oblige("post.name keyword is passed on", z3.BoolVal(r.attrs.get("name") == "nm"))


U_FORMULA_KINDS = [Unit("formula(%s)" % k, FORMULAS + ".formula", _fk_inputs(k), _fk_post,
                        contracts={FORMULAS + ".Formula": c_formula_class, FORMULAS + "._convert_to_hill_notation": c_hill_notation,
                                   FORMULAS + "._immutable": c_immutable_any},
                        inline={CORE + ".isatom", FORMULAS + "._is_string_like"},
                        replay={"module": "c02", "task": "replay"})
                   for k in ("none", "empty-string", "atom", "dict", "sequence")]

U_FORMULA_KINDS_NATURAL = [Unit("formula(%s)" % k, FORMULAS + ".formula", _fk_inputs(k), _fk_post,
                                contracts={FORMULAS + ".Formula": c_formula_class, FORMULAS + "._convert_to_hill_notation": c_hill_notation,
                                           FORMULAS + "._immutable": c_immutable_any},
                                inline={CORE + ".isatom", FORMULAS + "._is_string_like"},
                                replay={"module": "stateful", "task": "C12"})
                           for k in ("none-natural", "atom-natural", "dict-natural", "sequence-natural")]

U_FORMULA_STRING = [Unit("formula(%s)" % k, FORMULAS + ".formula", _fk_inputs(k), _fk_string_post,
                         contracts={FORMULAS + ".parse_formula": c_parse_formula_opaque, FORMULAS + ".Formula": c_formula_class},
                         inline={CORE + ".isatom", FORMULAS + "._is_string_like"},
                         replay={"module": "stateful", "task": "C11"}, writes={"name", "density", "natural_density"})
                    for k in ("string", "string-natural", "string-plain")]


# ==============================================================================  _immutable (general recursion)

IMM = z3.Function("immutable_of", T.Seq, T.Seq)


def imm_facts(st, s, x):
    """contract of _immutable on a sub-structure, at atom x: same composition, a tuple"""
    st.assume(z3.And(T.DEN(IMM(s), x) == T.DEN(s, x), T.SUP(IMM(s), x) == T.SUP(s, x), T.SISTUPLE(IMM(s)),
                     T.SLEN(IMM(s)) == T.SLEN(s), T.DEPTH(IMM(s)) >= 0))


def c_immutable_rec(interp, st, args, kw):
    """_immutable(fragment) at the recursive call site: an atom is returned as is; a sub-structure becomes
    the tuple structure immutable_of(sub) with the same composition; the measure depth decreases"""
    v = args[0]
    if isinstance(v, VSym) and isinstance(v.theory, T.FragTheory):
        f = v.expr
        measure = st.ghost.get("decreases")
        if measure is not None:
            st.oblige("recursion.decreases", z3.Implies(T.Frag.is_fgroup(f), z3.And(T.DEPTH(T.Frag.seq_of(f)) < measure,
                                                                                   T.DEPTH(T.Frag.seq_of(f)) >= 0)), kind="pre")
        out = z3.If(T.Frag.is_fatom(f), f, T.Frag.fgroup(IMM(T.Frag.seq_of(f))))
        return VSym(out, v.theory)
    raise Unsupported("_immutable callee contract on %r" % type(v).__name__)


def _imm_define(interp, st, rec):
    """R_j = (count_j + 0, _immutable(fragment_j))"""
    val = rec["value"]
    if not (isinstance(val, VTuple) and len(val.items) == 2 and isinstance(val.items[1], VSym)):
        raise Unsupported("element of the _immutable comprehension is not a (count, fragment) pair")
    R, j = rec["R"], rec["j"]
    st.assume(z3.And(T.SCOUNT(R, j) == to_real(val.items[0]), T.SFRAG(R, j) == val.items[1].expr))


def _imm2_inputs(st, interp):
    use_state(st)
    s = SEQS.new(st, "seq")
    st.ghost["decreases"] = T.DEPTH(s.expr)
    st.ghost["comp_define"] = _imm_define
    st.ghost["seq_theory"] = SEQS
    # a well-formed structure: counts are numbers (count+0 is the count); fragments are atoms or structures
    return [s], {}, {"S": s.expr}


def _imm2_post(st, interp, C, res):
    if res.outcome == "raise":
        st.oblige("never-raises on a well-formed structure", False, kind="raises", info={"exc": res.exc})
        return
    r = res.value
    comps = st.ghost.get("comprehensions", [])
    ok = isinstance(r, VSym) and isinstance(r.theory, T.SeqTheory) and len(comps) == 1 and z3.eq(r.expr, comps[0]["R"])
    st.oblige("post.returns the mapped sequence", z3.BoolVal(bool(ok)))
    if not ok:
        return
    st.oblige("post.the result is a tuple", z3.BoolVal(getattr(r, "kind", None) == "tuple"))
    R, S, j = comps[0]["R"], C["S"], comps[0]["j"]
    x = st.fresh("x_sk", T.Atom)
    sub = T.Frag.seq_of(T.SFRAG(S, j))
    imm_facts(st, sub, x)
    st.oblige("post.entry j keeps its count", T.SCOUNT(R, j) == T.SCOUNT(S, j))
    st.oblige("post.entry j keeps its contribution to every atom (atoms as is, groups by the recursive contract)",
              z3.And(T.contrib(T.SFRAG(R, j), x) == T.contrib(T.SFRAG(S, j), x),
                     T.occurs(T.SFRAG(R, j), x) == T.occurs(T.SFRAG(S, j), x)))
    st.oblige("post.entry j is an atom or a tuple structure",
              z3.Or(T.Frag.is_fatom(T.SFRAG(R, j)), T.SISTUPLE(T.Frag.seq_of(T.SFRAG(R, j)))))
    st.oblige("post.same length", T.SLEN(R) == T.SLEN(S))


U_IMMUTABLE_REC = Unit("_immutable[any structure]", FORMULAS + "._immutable", _imm2_inputs, _imm2_post,
                       contracts={FORMULAS + "._immutable": c_immutable_rec}, inline={CORE + ".isatom"},
                       replay={"module": "c02", "task": "replay"},
                       doc="with lemma denote.congruence: den(_immutable(s)) == den(s) for every structure")


def lemma_den_congruence():
    """two structures of equal length whose entries have equal counts and equal contributions denote
    the same composition (prefix induction)"""
    A, B = z3.Const("A", T.Seq), z3.Const("B", T.Seq)
    x = z3.Const("x", T.Atom)
    i = z3.Int("i")

    def hyp(st):
        st.assume(z3.And(SEQS.wf(A), SEQS.wf(B), T.SLEN(A) == T.SLEN(B)))
        k = z3.Int("k!cong")
        st.assume(z3.ForAll([k], z3.Implies(z3.And(k >= 0, k < T.SLEN(A)),
                                            z3.And(T.SCOUNT(A, k) == T.SCOUNT(B, k),
                                                   T.contrib(T.SFRAG(A, k), x) == T.contrib(T.SFRAG(B, k), x),
                                                   T.occurs(T.SFRAG(A, k), x) == T.occurs(T.SFRAG(B, k), x)))))
    states = []
    st = State()
    hyp(st)
    SEQS.base_prefix(st, A, x)
    SEQS.base_prefix(st, B, x)
    st.oblige("base", z3.And(T.DENP(A, 0, x) == T.DENP(B, 0, x), T.SUPP(A, 0, x) == T.SUPP(B, 0, x)), kind="lemma")
    states.append(st)
    st = State()
    hyp(st)
    st.assume(z3.And(i >= 0, i < T.SLEN(A)))
    st.assume(z3.And(T.DENP(A, i, x) == T.DENP(B, i, x), T.SUPP(A, i, x) == T.SUPP(B, i, x)))
    SEQS.unfold_prefix(st, A, i, x)
    SEQS.unfold_prefix(st, B, i, x)
    st.oblige("step", z3.And(T.DENP(A, i + 1, x) == T.DENP(B, i + 1, x), T.SUPP(A, i + 1, x) == T.SUPP(B, i + 1, x)), kind="lemma")
    states.append(st)
    st = State()
    hyp(st)
    SEQS.whole(st, A, x)
    SEQS.whole(st, B, x)
    st.assume(z3.And(T.DENP(A, T.SLEN(A), x) == T.DENP(B, T.SLEN(A), x), T.SUPP(A, T.SLEN(A), x) == T.SUPP(B, T.SLEN(A), x)))
    st.oblige("conclusion", z3.And(T.DEN(A, x) == T.DEN(B, x), T.SUP(A, x) == T.SUP(B, x)), kind="lemma")
    states.append(st)
    return states


L_DEN_CONGRUENCE = Lemma("denote.congruence", lemma_den_congruence)


# ==============================================================================  _convert_to_hill_notation

KeyList = z3.DeclareSort("KeyList")
LLEN = z3.Function("klist_len", KeyList, z3.IntSort())
LITEM = z3.Function("klist_item", KeyList, z3.IntSort(), T.Atom)
INPRE = z3.Function("klist_in_prefix", KeyList, z3.IntSort(), T.Atom, z3.BoolSort())


class KeyListTheory:
    """sorted(M.keys(), key=...) (A3): a duplicate-free list of exactly the keys of M, in key order.
    Only the permutation part is used here (the order is the subject of the eval family order_total)."""
    name = "KeyList"

    def __init__(self, m):
        self.m = m

    def len(self, interp, st, v):
        return LLEN(v.expr)

    def item(self, interp, st, v, j):
        a = LITEM(v.expr, j)
        st.assume(z3.Select(self.m.dom, a))                 # every listed item is a key
        st.assume(z3.Not(INPRE(v.expr, j, a)))              # no duplicates
        return ATOMS.sym(st, a)

    def truth(self, interp, st, v):
        return st.branch(LLEN(v.expr) > 0)

    def equals(self, interp, st, a, b):
        return a is b

    def comprehension(self, interp, st, fr, elt, g, it):
        return T.seq_comprehension(interp, st, fr, elt, g, it)


def _sorted_keys(interp, st, view, kw):
    if view.what != "keys":
        raise Unsupported("sorted() of items/values")
    key = kw.get("key")
    st.ghost["sorted_key_fn"] = key
    L = st.fresh("sorted_keys", KeyList)
    st.assume(LLEN(L) >= 0)
    st.ghost["klist"] = (L, view.m)
    return VSym(L, KeyListTheory(view.m))


def _hill_define(interp, st, rec):
    val = rec["value"]
    if not (isinstance(val, VTuple) and len(val.items) == 2 and isinstance(val.items[1], VSym)):
        raise Unsupported("element of the Hill comprehension is not a (count, atom) pair")
    R, j = rec["R"], rec["j"]
    st.assume(z3.And(T.SCOUNT(R, j) == to_real(val.items[0]), T.SFRAG(R, j) == T.Frag.fatom(val.items[1].expr)))


def _hn_inputs(st, interp):
    use_state(st)
    dom = st.fresh("atoms_dom", z3.ArraySort(T.Atom, z3.BoolSort()))
    val = st.fresh("atoms_val", z3.ArraySort(T.Atom, z3.RealSort()))
    m = atoms_map(dom, val)
    st.ghost["sorted_keys"] = _sorted_keys
    st.ghost["comp_define"] = _hill_define
    st.ghost["seq_theory"] = SEQS
    return [m], {}, {"m": m}


def _hn_post(st, interp, C, res):
    if res.outcome == "raise":
        st.oblige("never-raises", False, kind="raises", info={"exc": res.exc})
        return
    r, m = res.value, C["m"]
    comps = st.ghost.get("comprehensions", [])
    ok = isinstance(r, VSym) and len(comps) == 1 and z3.eq(r.expr, comps[0]["R"]) and "klist" in st.ghost
    st.oblige("post.returns one entry per sorted key", z3.BoolVal(bool(ok)))
    if not ok:
        return
    L, mm = st.ghost["klist"]
    st.oblige("post.sorted() is applied to the keys of the given map with _hill_key as the key function",
              z3.BoolVal(mm is m and isinstance(st.ghost.get("sorted_key_fn"), VFunc)
                         and st.ghost["sorted_key_fn"].qualname == FORMULAS + "._hill_key"))
    R, j = comps[0]["R"], comps[0]["j"]
    st.oblige("post.the structure is a tuple (formulas compare equal only with tuple structures)",
              z3.BoolVal(getattr(r, "kind", None) == "tuple"))
    st.oblige("post.entry j is (count of key j, key j)",
              z3.And(T.SCOUNT(R, j) == z3.Select(m.val, LITEM(L, j)), T.SFRAG(R, j) == T.Frag.fatom(LITEM(L, j))))
    st.oblige("post.same length as the key list", T.SLEN(R) == LLEN(L))


from pyvc.values import VFunc  # noqa
U_HILL_NOTATION = Unit("_convert_to_hill_notation", FORMULAS + "._convert_to_hill_notation", _hn_inputs, _hn_post,
                       replay={"module": "c19", "task": "replay"},
                       doc="with lemma denote.permutation: the Hill structure denotes exactly the given atom map")


def lemma_den_permutation():
    """a structure listing (M[a], a) for the items a of a duplicate-free list of exactly the keys of M
    denotes M: den(R, x) == M.get(x, 0), sup(R, x) == (x in M)   (prefix induction)"""
    R, L = z3.Const("R", T.Seq), z3.Const("L", KeyList)
    dom = z3.Const("dom", z3.ArraySort(T.Atom, z3.BoolSort()))
    val = z3.Const("val", z3.ArraySort(T.Atom, z3.RealSort()))
    x = z3.Const("x", T.Atom)
    i = z3.Int("i")
    n = LLEN(L)

    def hyp(st):
        k = z3.Int("k!perm")
        a = z3.Const("a!perm", T.Atom)
        st.assume(z3.And(SEQS.wf(R), n >= 0, T.SLEN(R) == n))
        st.assume(z3.ForAll([k], z3.Implies(z3.And(k >= 0, k < n),
                                            z3.And(T.SCOUNT(R, k) == z3.Select(val, LITEM(L, k)),
                                                   T.SFRAG(R, k) == T.Frag.fatom(LITEM(L, k)),
                                                   z3.Not(INPRE(L, k, LITEM(L, k))), z3.Select(dom, LITEM(L, k))))))
        # definition of prefix membership
        st.assume(z3.ForAll([a], z3.Not(INPRE(L, 0, a))))
        st.assume(z3.ForAll([k, a], z3.Implies(k >= 0, INPRE(L, k + 1, a) == z3.Or(INPRE(L, k, a), LITEM(L, k) == a))))
    states = []
    st = State()
    hyp(st)
    SEQS.base_prefix(st, R, x)
    st.oblige("base", z3.And(T.DENP(R, 0, x) == z3.If(INPRE(L, 0, x), z3.Select(val, x), 0), T.SUPP(R, 0, x) == INPRE(L, 0, x)), kind="lemma")
    states.append(st)
    st = State()
    hyp(st)
    st.assume(z3.And(i >= 0, i < n))
    st.assume(z3.And(T.DENP(R, i, x) == z3.If(INPRE(L, i, x), z3.Select(val, x), 0), T.SUPP(R, i, x) == INPRE(L, i, x)))
    SEQS.unfold_prefix(st, R, i, x)
    st.oblige("step", z3.And(T.DENP(R, i + 1, x) == z3.If(INPRE(L, i + 1, x), z3.Select(val, x), 0),
                             T.SUPP(R, i + 1, x) == INPRE(L, i + 1, x)), kind="lemma")
    states.append(st)
    st = State()
    hyp(st)
    SEQS.whole(st, R, x)
    st.assume(z3.And(T.DENP(R, n, x) == z3.If(INPRE(L, n, x), z3.Select(val, x), 0), T.SUPP(R, n, x) == INPRE(L, n, x)))
    st.assume(INPRE(L, n, x) == z3.Select(dom, x))        # sorted() lists exactly the keys (A3)
    st.oblige("conclusion", z3.And(T.DEN(R, x) == z3.If(z3.Select(dom, x), z3.Select(val, x), 0), T.SUP(R, x) == z3.Select(dom, x)), kind="lemma")
    states.append(st)
    return states


L_DEN_PERMUTATION = Lemma("denote.permutation", lemma_den_permutation)


# ==============================================================================  Formula.neutron_sld / xray_sld (deprecated forwarding methods)

def c_record_call(tag):
    def c(interp, st, args, kw):
        return VObj("Call", {"fn": tag, "args": list(args), "kw": dict(kw)})
    return c


def _fwd_inputs(st, interp):
    use_state(st)
    f = new_formula(st, "self")
    w = VOpt(st.fresh("wavelength_is_none", z3.BoolSort()), st.fresh("wavelength", z3.RealSort()))
    e = VOpt(st.fresh("energy_is_none", z3.BoolSort()), st.fresh("energy", z3.RealSort()))
    return [f], {"wavelength": w, "energy": e}, {"self": f, "w": w, "e": e, "S": f.attrs["structure"].expr}


def _fwd_post(which):
    def post(st, interp, C, res):
        if res.outcome == "raise":
            st.oblige("never-raises", False, kind="raises", info={"exc": res.exc})
            return
        f = C["self"]
        v = res.value
        if isinstance(v, VTuple):
            st.oblige("post.(None, ...) only when the density is unknown",
                      z3.And(f.attrs["density"].is_none, z3.BoolVal(all(x is None for x in v.items))))
            return
        ok = isinstance(v, VObj) and v.cls == "Call" and v.attrs["fn"] == which
        st.oblige("post.forwards to %s" % which, z3.BoolVal(ok))
        if not ok:
            return
        kw = v.attrs["kw"]
        st.oblige("post.the density is known on the forwarding path", z3.Not(f.attrs["density"].is_none))
        st.oblige("post.forwards the formula's atoms",
                  spec.eq_goal(interp, st, v.attrs["args"][0] if v.attrs["args"] else None, denotation_map(st, C["S"])))
        st.oblige("post.forwards the formula's density", spec.eq_goal(interp, st, kw.get("density"), f.attrs["density"].val))
        st.oblige("post.forwards wavelength= unchanged", spec.eq_goal(interp, st, kw.get("wavelength", "missing"), C["w"]))
        st.oblige("post.forwards energy= unchanged", spec.eq_goal(interp, st, kw.get("energy", "missing"), C["e"]))
    return post


U_FORMULA_NEUTRON_SLD = Unit("Formula.neutron_sld", F + "neutron_sld", _fwd_inputs, _fwd_post("neutron_sld"),
                             contracts=dict(CALLEE, **{"periodictable.nsf.neutron_sld": c_record_call("neutron_sld")}),
                             replay={"module": "c04", "task": "replay"})
U_FORMULA_XRAY_SLD = Unit("Formula.xray_sld", F + "xray_sld", _fwd_inputs, _fwd_post("xray_sld"),
                          contracts=dict(CALLEE, **{"periodictable.xsf.xray_sld": c_record_call("xray_sld")}),
                          replay={"module": "c05", "task": "replay"})


# ==============================================================================  _hill_key (the sort key of the Hill order)

def _hk_inputs(st, interp):
    use_state(st)
    a = ATOMS.new(st, "a")
    e = a.expr
    st.assume(z3.And(T.ISO(e) >= 0, T.ISO(e) < 10000, T.CHARGE(e) > -100, T.CHARGE(e) < 100))
    return [a], {}, {"a": a}


def _pad(n, width, plus=False):
    """the contract's own reading of '%<width>d' / '%+<width>d': right-aligned decimal, '+' for non-negative"""
    absn = z3.If(n < 0, -n, n)
    sign = z3.If(n < 0, z3.StringVal("-"), z3.StringVal("+" if plus else ""))
    txt = z3.Concat(sign, z3.IntToStr(absn))
    used = z3.If(absn < 10, 1, z3.If(absn < 100, 2, z3.If(absn < 1000, 3, 4))) + z3.If(z3.Or(n < 0, z3.BoolVal(plus)), 1, 0)
    out = txt
    for k in range(1, width):
        out = z3.If(used == width - k, z3.Concat(z3.StringVal(" " * k), txt), out)
    return out


def _hk_post(st, interp, C, res):
    if res.outcome == "raise":
        st.oblige("never-raises", False, kind="raises", info={"exc": res.exc})
        return
    e = C["a"].expr
    sym = T.SYMBOL(e)
    iso = z3.If(z3.Or(T.KIND(e) == 1, z3.And(T.KIND(e) == 2, T.KIND(T.BASE(e)) == 1)), T.ISO(e), 0)
    want = z3.Concat(z3.If(z3.Or(sym == z3.StringVal("C"), sym == z3.StringVal("H")), z3.StringVal("0"), z3.StringVal("1")),
                     sym, _pad(iso, 4), _pad(T.CHARGE(e), 3, plus=True))
    st.oblige("post.key == class digit (0 for C and H, else 1) ++ symbol ++ isotope number in 4 columns (0 without isotope) ++ signed charge in 3 columns",
              spec.eq_goal(interp, st, res.value, want))


U_HILL_KEY = Unit("_hill_key", FORMULAS + "._hill_key", _hk_inputs, _hk_post,
                  inline={"periodictable.core.isisotope", "periodictable.core.ision"}, replay={"module": "c19", "task": "replay"})


# ==============================================================================  _change_table (recursive translation of a structure to another table)

CTS = z3.Function("change_table_of_structure", T.Seq, T.Seq)
CTA = z3.Function("change_table_of_atom", T.Atom, T.Atom)      # core.change_table(atom, table): its own unit (C08/C10)


def c_change_table_rec(interp, st, args, kw):
    """_change_table(fragment, table) at the recursive call site: an atom becomes change_table(atom, table); a sub-structure
    becomes change_table_of_structure(sub); the measure depth decreases"""
    v = args[0]
    if st.ghost.get("ct_table") is not None:
        st.oblige("recursion.the same target table is passed down", z3.BoolVal(len(args) == 2 and args[1] is st.ghost["ct_table"]), kind="pre")
    if isinstance(v, VSym) and isinstance(v.theory, T.FragTheory):
        f = v.expr
        measure = st.ghost.get("decreases")
        if measure is not None:
            st.oblige("recursion.decreases", z3.Implies(T.Frag.is_fgroup(f), z3.And(T.DEPTH(T.Frag.seq_of(f)) < measure,
                                                                                   T.DEPTH(T.Frag.seq_of(f)) >= 0)), kind="pre")
        out = z3.If(T.Frag.is_fatom(f), T.Frag.fatom(CTA(T.Frag.atom_of(f))), T.Frag.fgroup(CTS(T.Frag.seq_of(f))))
        return VSym(out, v.theory)
    raise Unsupported("_change_table callee contract on %r" % type(v).__name__)


def _ct_define(interp, st, rec):
    val = rec["value"]
    if not (isinstance(val, VTuple) and len(val.items) == 2 and isinstance(val.items[1], VSym)):
        raise Unsupported("element of the _change_table comprehension is not a (count, fragment) pair")
    R, j = rec["R"], rec["j"]
    st.assume(z3.And(T.SCOUNT(R, j) == to_real(val.items[0]), T.SFRAG(R, j) == val.items[1].expr))


def _ct2_inputs(st, interp):
    use_state(st)
    s = SEQS.new(st, "seq")
    table = VObj("TargetTable", {})
    st.ghost["decreases"] = T.DEPTH(s.expr)
    st.ghost["comp_define"] = _ct_define
    st.ghost["seq_theory"] = SEQS
    st.ghost["ct_table"] = table
    return [s, table], {}, {"S": s.expr, "table": table}


def _ct2_post(st, interp, C, res):
    if res.outcome == "raise":
        st.oblige("never-raises on a well-formed structure", False, kind="raises", info={"exc": res.exc})
        return
    r = res.value
    comps = st.ghost.get("comprehensions", [])
    ok = isinstance(r, VSym) and isinstance(r.theory, T.SeqTheory) and len(comps) == 1 and z3.eq(r.expr, comps[0]["R"])
    st.oblige("post.returns the mapped sequence", z3.BoolVal(bool(ok)))
    if not ok:
        return
    st.oblige("post.the result is a tuple", z3.BoolVal(getattr(r, "kind", None) == "tuple"))
    R, S, j = comps[0]["R"], C["S"], comps[0]["j"]
    fS, fR = T.SFRAG(S, j), T.SFRAG(R, j)
    st.oblige("post.same length", T.SLEN(R) == T.SLEN(S))
    st.oblige("post.entry j keeps its count", T.SCOUNT(R, j) == T.SCOUNT(S, j))
    st.oblige("post.an atom at entry j is replaced by change_table(atom, table); a group by its translated group",
              z3.And(z3.Implies(T.Frag.is_fatom(fS), fR == T.Frag.fatom(CTA(T.Frag.atom_of(fS)))),
                     z3.Implies(T.Frag.is_fgroup(fS), fR == T.Frag.fgroup(CTS(T.Frag.seq_of(fS))))))


def c_core_change_table(interp, st, args, kw):
    a = args[0]
    if st.ghost.get("ct_table") is not None:
        st.oblige("pre.change_table is asked for the caller's table", z3.BoolVal(len(args) == 2 and args[1] is st.ghost["ct_table"]), kind="pre")
    return ATOMS.sym(st, CTA(a.expr))


U_CHANGE_TABLE_STRUCT = Unit("_change_table[any structure]", FORMULAS + "._change_table", _ct2_inputs, _ct2_post,
                             contracts={FORMULAS + "._change_table": c_change_table_rec, CORE + ".change_table": c_core_change_table},
                             inline={CORE + ".isatom"}, replay={"module": "c10", "task": "replay"})


def _ct_atom_inputs(st, interp):
    use_state(st)
    a = ATOMS.new(st, "atom")
    table = VObj("TargetTable", {})
    st.ghost["ct_table"] = table
    return [a, table], {}, {"a": a, "table": table}


def _ct_atom_post(st, interp, C, res):
    if res.outcome == "raise":
        st.oblige("never-raises", False, kind="raises", info={"exc": res.exc})
        return
    r = res.value
    st.oblige("post.an atom is translated by core.change_table to the table asked for",
              z3.BoolVal(False) if not isinstance(r, VSym) else r.expr == CTA(C["a"].expr))


U_CHANGE_TABLE_ATOM = Unit("_change_table[atom]", FORMULAS + "._change_table", _ct_atom_inputs, _ct_atom_post,
                           contracts={FORMULAS + "._change_table": c_change_table_rec, CORE + ".change_table": c_core_change_table},
                           inline={CORE + ".isatom"}, replay={"module": "c10", "task": "replay"})
