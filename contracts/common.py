"""Shared contract vocabulary (layers L2-L4 of DESIGN.md)."""
from fractions import Fraction
import ast
import z3

from pyvc import extract, theories as T, spec
from pyvc.values import *   # noqa
from pyvc.values import VMap, VSym, VObj, VOpt, VTuple, VList, VDict, Cx, Unsupported

FORMULAS = "periodictable.formulas"
CORE = "periodictable.core"
NSF = "periodictable.nsf"


def module_constant(modname, name):
    """exact rational value of a module-level numeric literal (A1: decimal text -> rational)"""
    node = extract.module(modname).assignments()[name]
    if isinstance(node, ast.Constant) and isinstance(node.value, (int, float)):
        return Fraction(repr(node.value)) if isinstance(node.value, float) else Fraction(node.value)
    raise ValueError("%s.%s is not a numeric literal" % (modname, name))


def atom_theory():
    me = module_constant("periodictable.constants", "electron_mass")
    return T.AtomTheory(me)


ATOMS = atom_theory()
SEQS = T.SeqTheory(ATOMS)
AVOGADRO = module_constant("periodictable.constants", "avogadro_number")


def atoms_map(dom, val, inst=None):
    return VMap(dom, val, T.Atom, z3.RealSort(), wrap=(lambda e: ATOMS_sym(e), lambda e: e), inst=inst)


_cur_state = [None]


def ATOMS_sym(e):
    st = _cur_state[0]
    if st is not None:
        return ATOMS.sym(st, e)
    return VSym(e, ATOMS)


def use_state(st):
    _cur_state[0] = st


def denotation_map(st, S):
    """the atom map a structure denotes: {a: den(S,a) for a with sup(S,a)}"""
    a = z3.Const("a!den", T.Atom)
    return atoms_map(z3.Lambda([a], T.SUP(S, a)), z3.Lambda([a], T.DEN(S, a)),
                     inst=lambda st_, k: SEQS.whole(st_, S, k))


def prefix_map(st, S, i, how):
    """{a: den_prefix(S,i,a) for a with sup_prefix(S,i,a)};  how: 'base' | ('step', i_prev) | None"""
    a = z3.Const("a!den", T.Atom)

    def inst(st_, k):
        if how == "base":
            SEQS.base_prefix(st_, S, k)
        elif isinstance(how, tuple):
            SEQS.unfold_prefix(st_, S, how[1], k)
    return atoms_map(z3.Lambda([a], T.SUPP(S, i, a)), z3.Lambda([a], T.DENP(S, i, a)), inst=inst)


def fresh_atom_map(st, name, positive=True):
    dom = st.fresh(name + "_dom", z3.ArraySort(T.Atom, z3.BoolSort()))
    val = st.fresh(name + "_val", z3.ArraySort(T.Atom, z3.RealSort()))
    if positive:
        k = z3.Const("k!pos", T.Atom)
        st.assume(z3.ForAll([k], z3.Implies(z3.Select(dom, k), z3.Select(val, k) > 0)))
    return atoms_map(dom, val)


def map_get(m, a):
    """m.get(a, 0) as a term"""
    return z3.If(z3.Select(m.dom, a), z3.Select(m.val, a), z3.RealVal(0))


def forall_atoms(fn, name="a!q"):
    a = z3.Const(name, T.Atom)
    return z3.ForAll([a], fn(a))
