"""Sidecar contracts for periodictable/density.py (C06 algebra)."""
import z3

from pyvc import spec, shims, theories as T
from pyvc.contract import Unit, Lemma
from pyvc.state import State
from pyvc.values import *   # noqa
from pyvc.values import VObj, VOpt, VSym, VTuple, Cx, Unsupported
from .common import ATOMS, AVOGADRO, use_state

DENSITY = "periodictable.density"
NA = z3.RealVal(AVOGADRO)


def R(x):
    return to_real(x)


def _atom_inputs(kind):
    def mk(st, interp):
        use_state(st)
        a = ATOMS.new(st, "atom")
        e = a.expr
        if kind == "element":
            st.assume(T.KIND(e) == 0)
        else:
            st.assume(z3.And(T.KIND(e) == 1, T.MASS(T.BASE(e)) > 0))
        return [a], {}, {"a": e}
    return mk


def _density_post(st, interp, C, res):
    a = C["a"]
    if res.outcome == "raise":
        st.oblige("never-raises (unknown element density gives None, not an error)", False, kind="raises",
                  info={"exc": res.exc})
        return
    v = res.value
    el = z3.If(T.KIND(a) == 0, a, T.BASE(a))
    if v is None or isinstance(v, VOpt):
        isnone = z3.BoolVal(True) if v is None else v.is_none
        st.oblige("post.None exactly when the element density is unknown", isnone == T.DENS_NONE(el))
        if isinstance(v, VOpt):
            want = T.DENS(el) * z3.If(T.KIND(a) == 0, z3.RealVal(1), T.MASS(a) / T.MASS(el))
            st.oblige("post.value", z3.Implies(z3.Not(isnone), R(v.val) == want))
        return
    st.oblige("post.value only when the element density is known", z3.Not(T.DENS_NONE(el)))
    want = T.DENS(el) * z3.If(T.KIND(a) == 0, z3.RealVal(1), T.MASS(a) / T.MASS(el))
    st.oblige("post.isotope density == element density * isotope mass / element mass", R(v) == want)


U_DENSITY_EL = Unit("density.density[element]", DENSITY + ".density", _atom_inputs("element"), _density_post,
                    replay={"module": "c06", "task": "replay"})
U_DENSITY_ISO = Unit("density.density[isotope]", DENSITY + ".density", _atom_inputs("isotope"), _density_post,
                     replay={"module": "c06", "task": "replay"})


def _nd_post(which):
    def post(st, interp, C, res):
        a = C["a"]
        el = z3.If(T.KIND(a) == 0, a, T.BASE(a))
        if res.outcome == "raise":
            st.oblige("never-raises", False, kind="raises", info={"exc": res.exc})
            return
        v = res.value
        if v is None:
            st.oblige("post.None only when the density is unknown", T.DENS_NONE(el))
            return
        st.oblige("post.value only when the density is known", z3.Not(T.DENS_NONE(el)))
        rho, m = T.DENS(el), T.MASS(el)
        if which == "number_density":
            st.oblige("post.n == rho N_A / m", R(v) * m == rho * NA)
        else:
            n = rho * NA / m
            st.oblige("post.n d^3 == 1e24", z3.And(R(v) > 0, n * R(v) * R(v) * R(v) == z3.RealVal(10 ** 24)))
    return post


def _nd_inputs(kind):
    base = _atom_inputs(kind)

    def mk(st, interp):
        args, kw, C = base(st, interp)
        a = C["a"]
        el = z3.If(T.KIND(a) == 0, a, T.BASE(a))
        st.assume(z3.Implies(z3.Not(T.DENS_NONE(el)), T.DENS(el) > 0))
        return args, kw, C
    return mk


U_NUMBER_DENSITY = [Unit("density.number_density[%s]" % k, DENSITY + ".number_density", _nd_inputs(k),
                         _nd_post("number_density"), replay={"module": "c06", "task": "replay"})
                    for k in ("element", "isotope")]
U_INTERATOMIC = [Unit("density.interatomic_distance[%s]" % k, DENSITY + ".interatomic_distance", _nd_inputs(k),
                      _nd_post("interatomic_distance"), replay={"module": "c06", "task": "replay"})
                 for k in ("element", "isotope")]
