"""Sidecar contracts for table loaders: one iteration of nsf.init's row loop on a symbolic row (C07).

The heap of table atoms is a write log: the row may write only (element of the row's Z, its isotope);
reads of an attribute return the value written in this iteration, else the prior state."""
import z3

from pyvc import spec, shims, theories as T
from pyvc.contract import Unit, Lemma
from pyvc.state import State
from pyvc.values import *   # noqa
from pyvc.values import VObj, VOpt, VSym, VTuple, VList, VDict, Cx, Unsupported, VFunc, VBuiltin, NAN, PyRaise
from .common import ATOMS, use_state, module_constant
from . import core as KC

NSF = "periodictable.nsf"
FN_NONE = z3.Function("fix_number_is_none", z3.StringSort(), z3.BoolSort())
FN_VAL = z3.Function("fix_number_value", z3.StringSort(), z3.RealSort())
NUMDENS_NONE = z3.Function("atom.number_density_is_none", T.Atom, z3.BoolSort())
NUMDENS = z3.Function("atom.number_density", T.Atom, z3.RealSort())
ABSW = module_constant(NSF, "ABSORPTION_WAVELENGTH")


def c_fix_number(interp, st, args, kw):
    s = interp.resolve(st, args[0])
    s = z3.StringVal(s) if isinstance(s, str) else s
    return VOpt(FN_NONE(s), FN_VAL(s))


class TableText:
    """the embedded table text: .split('\\n') yields the rows; here ONE arbitrary row"""

    def __init__(self, rows):
        self.rows = rows


def _row_inputs(kind):
    def mk(st, interp):
        use_state(st)
        cols = [st.fresh("col%d" % i, z3.StringSort()) for i in range(11)]
        line = st.fresh("line", z3.StringSort())
        zpart, sympart, isopart = (st.fresh(n, z3.StringSort()) for n in ("key_Z", "key_symbol", "key_A"))
        st.assume(z3.InRe(zpart, z3.Plus(z3.Range("0", "9"))))
        st.assume(z3.InRe(isopart, z3.Plus(z3.Range("0", "9"))))
        st.assume(z3.And(z3.Length(zpart) <= 3, z3.Length(isopart) <= 3))
        st.assume(z3.StrToInt(isopart) > 0)         # no row of the table carries mass number 0 (closed data fact, C07 eval)
        st.assume(z3.Not(FN_NONE(cols[10])))          # every row of the table has an absorption value (closed data fact, C07 eval)

        def split(interp_, st_, s, args):
            if z3.eq(s, line) and args == [","]:
                return VList(list(cols))
            if z3.eq(s, cols[0]) and args == ["-"]:
                return VList([zpart, sympart] + ([isopart] if kind == "isotope" else []))
            raise Unsupported("split of an unexpected string")
        st.ghost["str_split"] = split
        writes = []
        prior_missing = st.fresh("element_had_no_record", z3.BoolSort())
        missing_holder = {}

        def attr_first(interp_, st_, v, name, node):
            for (a, n, val) in reversed(writes):
                if n == name and z3.eq(a, v.expr):
                    return val
            if name == "number_density":
                return VOpt(NUMDENS_NONE(v.expr), NUMDENS(v.expr))
            if name == "add_isotope":
                return VBuiltin("add_isotope", lambda i, s_, a, k: ATOMS.sym(s_, KC.ISOTOPE_OF(v.expr, to_z3num(i.resolve(s_, a[0])))))
            if name == "neutron":
                # prior state of the element: the class default `missing` or an earlier record
                if st_.branch(prior_missing):
                    return missing_holder["missing"]
                return VObj("EarlierRecord", {})
            return NotImplemented

        def setattr_(interp_, st_, v, name, value, node):
            writes.append((v.expr, name, value))
        st.ghost["atom_attr_first"] = attr_first
        st.ghost["atom_setattr"] = setattr_
        table = VObj("TargetTable", {"properties": VList(["mass", "density"])})
        C = {"line": line, "cols": cols, "writes": writes, "kind": kind, "zpart": zpart, "sympart": sympart, "isopart": isopart,
             "prior_missing": prior_missing, "missing_holder": missing_holder, "table": table}
        # hooks into the function's environment: the table text and the later passes are cut off
        return [table], {}, C
    return mk


def _env(line_holder):
    return {}


def _row_post(st, interp, C, res):
    cols, writes, kind = C["cols"], C["writes"], C["kind"]
    Z = z3.StrToInt(C["zpart"])
    el = KC.TT_EL(Z)
    if res.outcome == "raise":
        st.oblige("post.a row is rejected (AssertionError) only when its symbol is not the symbol of element Z",
                  z3.And(z3.BoolVal(res.exc == "AssertionError"), T.SYMBOL(el) != C["sympart"]), kind="raises", info={"exc": res.exc, "line": res.lineno})
        return
    st.oblige("post.accepted rows name the symbol of element Z", T.SYMBOL(el) == C["sympart"])
    target = el if kind == "element" else KC.ISOTOPE_OF(el, z3.StrToInt(C["isopart"]))
    recs = [val for (a, n, val) in writes if n == "neutron" and z3.eq(z3.simplify(a), z3.simplify(target))]
    st.oblige("post.the row's record is stored on the atom the key names (element Z, or its isotope A)", z3.BoolVal(len(recs) == 1))
    if len(recs) != 1:
        return
    rec = recs[0]

    def field(name, col):
        v = rec.attrs.get(name)
        want = VOpt(FN_NONE(cols[col]), FN_VAL(cols[col]))
        return spec.eq_goal(interp, st, v, want)
    for name, col in (("b_c", 3), ("bp", 4), ("bm", 5), ("coherent", 7), ("incoherent", 8), ("total", 9), ("absorption", 10)):
        st.oblige("post.%s is the number in column %d" % (name, col), field(name, col))
    st.oblige("post.is_energy_dependent iff column 6 is 'E'",
              spec.eq_goal(interp, st, rec.attrs.get("is_energy_dependent"), cols[6] == z3.StringVal("E")))
    bcc = rec.attrs.get("b_c_complex")
    if isinstance(bcc, Cx):
        st.oblige("post.b_c_complex == b_c - i*absorption/(2000*1.798)",
                  z3.And(to_real(bcc.re) == FN_VAL(cols[3]), to_real(bcc.im) == -FN_VAL(cols[10]) / (2000 * z3.RealVal(ABSW))))
    else:
        st.oblige("post.b_c_complex has a NaN real part only when b_c is blank", z3.And(z3.BoolVal(bcc is NAN), FN_NONE(cols[3])))
    st.oblige("post._number_density is the element's number density",
              spec.eq_goal(interp, st, rec.attrs.get("_number_density"), VOpt(NUMDENS_NONE(el), NUMDENS(el))))
    el_writes = [val for (a, n, val) in writes if n == "neutron" and z3.eq(z3.simplify(a), z3.simplify(el))]
    if kind == "isotope":
        spins = [val for (a, n, val) in writes if n == "nuclear_spin" and z3.eq(z3.simplify(a), z3.simplify(target))]
        st.oblige("post.nuclear_spin is column 2", z3.BoolVal(len(spins) == 1) if len(spins) != 1 else spec.eq_goal(interp, st, spins[0], cols[2]))
        ab = rec.attrs.get("abundance")
        has_space = z3.Contains(cols[1], z3.StringVal(" "))
        want_ab = VOpt(z3.And(z3.Not(has_space), FN_NONE(cols[1])), z3.If(has_space, z3.RealVal(0), FN_VAL(cols[1])))
        st.oblige("post.abundance is column 1, or 0 when it holds a half-life ('... Y')", spec.eq_goal(interp, st, ab, want_ab))
        st.oblige("post.an element without a record of its own takes the isotope's record; otherwise it is left alone",
                  z3.If(C["prior_missing"], z3.BoolVal(len(el_writes) == 1 and el_writes[0] is rec), z3.BoolVal(len(el_writes) == 0)))
    others = [(a, n) for (a, n, val) in writes if not (z3.eq(z3.simplify(a), z3.simplify(target)) or z3.eq(z3.simplify(a), z3.simplify(el)))]
    st.oblige("frame.the row writes only its own element and isotope", z3.BoolVal(len(others) == 0), kind="frame")


def _row_unit(kind):
    holder = {}

    def mk(st, interp):
        args, kw, C = _row_inputs(kind)(st, interp)
        missing = VObj((NSF, "Neutron"), {"_number_density": None})
        C["missing_holder"]["missing"] = missing
        holder.clear()
        holder.update({"line": C["line"], "table": C["table"], "missing": missing})
        return [], {}, C

    def closure(interp):
        return [holder]
    return Unit("nsf.init::row loop[one %s row]" % kind, NSF + ".init::loop#1", mk, _row_post, closure=closure,
                contracts={NSF + ".fix_number": c_fix_number, "TargetTable.__getitem__": KC.c_tt_getitem},
                inline={NSF + ".Neutron.__init__"}, options={"div_zero": "branch"},
                replay={"module": "c07", "task": "replay"})


U_NSF_ROW = [_row_unit("element"), _row_unit("isotope")]


# ==============================================================================  C06: mass.init, abundance pass (loop 3)

MASS = "periodictable.mass"
PU_VAL = z3.Function("parse_uncertainty_value", z3.StringSort(), z3.RealSort())
PU_UNC = z3.Function("parse_uncertainty_unc", z3.StringSort(), z3.RealSort())


def c_parse_uncertainty(interp, st, args, kw):
    s = interp.resolve(st, args[0])
    s = z3.StringVal(s) if isinstance(s, str) else s
    return VTuple([PU_VAL(s), PU_UNC(s)])


def _ab_inputs(kind):
    def mk(st, interp):
        use_state(st)
        line = st.fresh("line", z3.StringSort())
        first = z3.SubString(line, 0, 1)
        is_header = z3.Not(z3.Contains(z3.StringVal(" \t"), first))
        st.assume(z3.Length(line) >= 1)
        st.assume(is_header if kind.startswith("header") else z3.Not(is_header))
        tok0, tok1 = st.fresh("token0", z3.StringSort()), st.fresh("token1", z3.StringSort())
        st.assume(z3.And(z3.InRe(tok0, z3.Plus(z3.Range("0", "9"))), z3.Length(tok0) <= 3))

        def split(interp_, st_, s, args):
            if not args:
                return VList([tok0, tok1, st_.fresh("token2", z3.StringSort())])
            raise Unsupported("split with a separator")
        st.ghost["str_split"] = split
        z = st.fresh("z", z3.IntSort())
        st.assume(z >= 0)
        if kind == "header-first":
            st.assume(z == 0)
        elif kind == "header-next":
            st.assume(z > 0)
        A = [st.fresh("A%d" % i, z3.IntSort()) for i in range(2)]
        v = [st.fresh("v%d" % i, z3.RealSort()) for i in range(2)]
        dv = [st.fresh("dv%d" % i, z3.RealSort()) for i in range(2)]
        st.assume(z3.And(A[0] != A[1], A[0] > 0, A[1] > 0, v[0] > 0, v[1] > 0))
        # within one element block every mass number occurs once (closed data fact, C06 eval)
        st.assume(z3.And(z3.StrToInt(tok0) != A[0], z3.StrToInt(tok0) != A[1]))
        value = VDict([[A[i], VTuple([v[i], dv[i]])] for i in range(2)])
        writes = []
        st.ghost["atom_setattr"] = lambda i_, s_, a, name, val, node: writes.append((a.expr, name, val))
        st.ghost["atom_getitem"] = lambda i_, s_, a, idx, node: ATOMS.sym(s_, KC.ISOTOPE_OF(a.expr, to_z3num(idx)))
        table = VObj("TargetTable", {})
        holder.clear()
        holder.update({"line": line, "z": z, "value": value, "table": table})
        return [], {}, dict(kind=kind, z=z, A=A, v=v, dv=dv, writes=writes, tok0=tok0, tok1=tok1, value=value)
    holder = {}
    mk.holder = holder
    return mk


def _ab_post(st, interp, C, res):
    if res.outcome == "raise":
        st.oblige("never-raises on a well-formed table line", False, kind="raises", info={"exc": res.exc, "line": res.lineno})
        return
    kind, z, A, v, dv, writes = C["kind"], C["z"], C["A"], C["v"], C["dv"], C["writes"]
    out = res.value
    ok = isinstance(out, VTuple) and len(out.items) == 2
    st.oblige("post.state after the line", z3.BoolVal(ok))
    if not ok:
        return
    z2, value2 = out.items
    if kind == "data":
        st.oblige("post.a data line leaves the current element unchanged", spec.eq_goal(interp, st, z2, z))
        ok = isinstance(value2, VDict)
        ents = value2.entries if ok else []
        new = [e for e in ents if not any(e[0] is a for a in A)]
        st.oblige("post.a data line records parse_uncertainty(second token) under the mass number of the first token",
                  z3.BoolVal(len(new) == 1 and len(ents) == 3) if not (len(new) == 1 and len(ents) == 3)
                  else z3.And(to_z3num(new[0][0]) == z3.StrToInt(C["tok0"]),
                              spec.eq_goal(interp, st, new[0][1], VTuple([PU_VAL(C["tok1"]), PU_UNC(C["tok1"])]))))
        st.oblige("frame.a data line writes no atom", z3.BoolVal(len(writes) == 0), kind="frame")
        return
    st.oblige("post.a header line starts the element named by its first token", to_z3num(z2) == z3.StrToInt(C["tok0"]))
    st.oblige("post.a header line starts with an empty composition", z3.BoolVal(isinstance(value2, VDict) and not value2.entries))
    if kind == "header-first":
        st.oblige("frame.the first header flushes nothing", z3.BoolVal(len(writes) == 0), kind="frame")
        return
    el = KC.TT_EL(z)
    total = v[0] + v[1]
    st.oblige("post.the previous element is flushed: two isotopes x (abundance, uncertainty)", z3.BoolVal(len(writes) == 4))
    for i in range(2):
        iso = KC.ISOTOPE_OF(el, A[i])
        for name, num in (("_abundance", v[i]), ("_abundance_unc", dv[i])):
            w = [val for (a, n, val) in writes if n == name and z3.eq(z3.simplify(a), z3.simplify(iso))]
            st.oblige("post.flush: isotope %d %s == 100 * value / sum of the element's values" % (i, name),
                      z3.BoolVal(len(w) == 1) if len(w) != 1 else to_real(w[0]) * total == 100 * num)


def _ab_unit(kind):
    mk = _ab_inputs(kind)
    return Unit("mass.init::abundance loop[%s line]" % kind, MASS + ".init::loop#3>z,value", mk, _ab_post,
                closure=lambda interp: [mk.holder],
                contracts={"periodictable.util.parse_uncertainty": c_parse_uncertainty, "TargetTable.__getitem__": KC.c_tt_getitem},
                options={"div_zero": "branch"}, replay={"module": "c06", "task": "replay"})


U_MASS_ABUNDANCE_LOOP = [_ab_unit(k) for k in ("data", "header-first", "header-next")]


# ==============================================================================  C20: covalent_radius.init, row loop (loop 1)

COV = "periodictable.covalent_radius"
FLOAT_OF_STR = shims.FLOAT_OF_STR


def _cov_inputs(kind):
    def mk(st, interp):
        use_state(st)
        line = st.fresh("line", z3.StringSort())
        n = {"full": 5, "short": 3, "alternate": 5}[kind]
        fields = [st.fresh("field%d" % i, z3.StringSort()) for i in range(n)]
        if kind == "alternate":
            st.assume(fields[0] == z3.StringVal("-"))
        else:
            st.assume(z3.And(z3.InRe(fields[0], z3.Plus(z3.Range("0", "9"))), z3.Length(fields[0]) <= 3))

        def split(interp_, st_, s, args):
            if z3.eq(s, line) and not args:
                return VList(list(fields))
            raise Unsupported("split of an unexpected string")
        st.ghost["str_split"] = split
        writes = []
        st.ghost["atom_setattr"] = lambda i_, s_, v, name, value, node: writes.append((v.expr, name, value))
        table = VObj("TargetTable", {"properties": VList(["covalent_radius"])})
        return [], {}, {"line": line, "fields": fields, "writes": writes, "kind": kind, "table": table}
    return mk


def _cov_post(st, interp, C, res):
    fields, writes, kind = C["fields"], C["writes"], C["kind"]
    if res.outcome == "raise":
        st.oblige("never-raises", False, kind="raises", info={"exc": res.exc})
        return
    if kind == "alternate":
        st.oblige("post.rows of alternate spin states ('-') write nothing: the first listed state stays", z3.BoolVal(len(writes) == 0))
        return
    el = KC.TT_EL(z3.StrToInt(fields[0]))
    r = [val for (a, n, val) in writes if n == "covalent_radius" and z3.eq(z3.simplify(a), z3.simplify(el))]
    dr = [val for (a, n, val) in writes if n == "covalent_radius_uncertainty" and z3.eq(z3.simplify(a), z3.simplify(el))]
    st.oblige("post.radius and uncertainty are stored once each, on element Z of the row", z3.BoolVal(len(r) == 1 and len(dr) == 1 and len(writes) == 2))
    if len(r) != 1 or len(dr) != 1:
        return
    st.oblige("post.covalent_radius is the number in column 3", spec.eq_goal(interp, st, r[0], FLOAT_OF_STR(fields[2])))
    want = FLOAT_OF_STR(fields[3]) * z3.RealVal("0.01") if kind == "full" else z3.RealVal(0)
    st.oblige("post.uncertainty is column 4 in units of 0.01 angstrom (0 when the row has none)", spec.eq_goal(interp, st, dr[0], want))


def _cov_unit(kind):
    holder = {}

    def mk(st, interp):
        args, kw, C = _cov_inputs(kind)(st, interp)
        holder.clear()
        holder.update({"line": C["line"], "table": C["table"]})
        return [], {}, C
    return Unit("covalent_radius.init::row loop[%s row]" % kind, COV + ".init::loop#1", mk, _cov_post, closure=lambda interp: [holder],
                contracts={"TargetTable.__getitem__": KC.c_tt_getitem}, replay={"module": "c20", "task": "replay"})


U_COVALENT_ROW = [_cov_unit(k) for k in ("full", "short", "alternate")]


# ==============================================================================  C06: density.init, element loop (loop 1)

DENSM = "periodictable.density"


def c_table_getattr_symbol(interp, st, args, kw):
    """getattr(table, k): the element whose symbol is k"""
    return ATOMS.sym(st, KC.TT_BY_SYMBOL(args[1] if not isinstance(args[1], str) else z3.StringVal(args[1])))


def _dens_inputs(kind):
    def mk(st, interp):
        use_state(st)
        k = st.fresh("symbol", z3.StringSort())
        dv = st.fresh("density_value", z3.RealSort())
        cav = st.fresh("caveat", z3.StringSort())
        v = {"number": dv, "with caveat": VTuple([dv, cav]), "unavailable": None}[kind]
        writes = []
        st.ghost["atom_setattr"] = lambda i_, s_, a, name, value, node: writes.append((a.expr, name, value))
        table = VObj("TargetTable", {"properties": VList(["density"])})
        return [], {}, {"k": k, "v": v, "dv": dv, "cav": cav, "kind": kind, "writes": writes, "table": table}
    return mk


def _dens_post(st, interp, C, res):
    if res.outcome == "raise":
        st.oblige("never-raises", False, kind="raises", info={"exc": res.exc})
        return
    writes, kind = C["writes"], C["kind"]
    el = KC.TT_BY_SYMBOL(C["k"])
    d = [val for (a, n, val) in writes if n == "_density" and z3.eq(z3.simplify(a), z3.simplify(el))]
    c = [val for (a, n, val) in writes if n == "density_caveat" and z3.eq(z3.simplify(a), z3.simplify(el))]
    st.oblige("post.density and caveat are stored once each, on the element the key names", z3.BoolVal(len(d) == 1 and len(c) == 1 and len(writes) == 2))
    if len(d) != 1 or len(c) != 1:
        return
    if kind == "unavailable":
        st.oblige("post.None stays None, with caveat 'unavailable'", z3.BoolVal(d[0] is None and c[0] == "unavailable"))
    else:
        st.oblige("post._density is the table value", spec.eq_goal(interp, st, d[0], C["dv"]))
        st.oblige("post.the caveat is the table's (empty when there is none)",
                  spec.eq_goal(interp, st, c[0], C["cav"]) if kind == "with caveat" else z3.BoolVal(c[0] == ""))


def _dens_unit(kind):
    holder = {}

    def mk(st, interp):
        args, kw, C = _dens_inputs(kind)(st, interp)
        holder.clear()
        holder.update({"k": C["k"], "v": C["v"], "table": C["table"]})
        return [], {}, C
    return Unit("density.init::element loop[%s]" % kind, DENSM + ".init::loop#1", mk, _dens_post, closure=lambda interp: [holder],
                contracts={"TargetTable.__getattr__": c_table_getattr_symbol, "getattr": None} if False else {"TargetTable.__getattr__": c_table_getattr_symbol},
                replay={"module": "c06", "task": "replay"})


U_DENSITY_ROW = [_dens_unit(k) for k in ("number", "with caveat", "unavailable")]


# ==============================================================================  C20: crystal_structure.init (loop 1), xsf.init_spectral_lines (loop 1)

CRYS = "periodictable.crystal_structure"


def _crys_inputs(kind):
    def mk(st, interp):
        use_state(st)
        Z = st.fresh("Z", z3.IntSort())
        st.assume(Z >= 0)
        struct = VDict([["symmetry", st.fresh("symmetry", z3.StringSort())], ["a", st.fresh("a", z3.RealSort())]]) if kind == "entry" else None
        writes = []
        st.ghost["atom_setattr"] = lambda i_, s_, v, name, value, node: writes.append((v.expr, name, value))
        table = VObj("TargetTable", {"properties": VList(["crystal_structure"])})
        return [], {}, {"Z": Z, "struct": struct, "writes": writes, "table": table, "kind": kind}
    return mk


def _crys_post(st, interp, C, res):
    if res.outcome == "raise":
        st.oblige("never-raises", False, kind="raises", info={"exc": res.exc})
        return
    writes, struct = C["writes"], C["struct"]
    el = KC.TT_EL(C["Z"])
    w = [val for (a, n, val) in writes if n == "crystal_structure" and z3.eq(z3.simplify(a), z3.simplify(el))]
    st.oblige("post.one write, on element Z (the position in the list)", z3.BoolVal(len(w) == 1 and len(writes) == 1))
    if len(w) != 1:
        return
    if struct is None:
        st.oblige("post.no entry stays None", z3.BoolVal(w[0] is None))
        return
    v = w[0]
    ok = isinstance(v, VDict) and len(v.entries) == len(struct.entries)
    st.oblige("post.the element gets a dictionary with the entry's fields", z3.BoolVal(ok))
    if ok:
        st.oblige("post.same keys and values as the embedded entry",
                  z3.And([z3.BoolVal(k1 == k2) if isinstance(k1, str) else k1 == k2 for (k1, _), (k2, _) in zip(v.entries, struct.entries)]
                         + [spec.eq_goal(interp, st, a, b) for (_, a), (_, b) in zip(v.entries, struct.entries)]))
        st.oblige("post.its OWN dictionary (editing it must not reach the embedded data or another table)", z3.BoolVal(v is not struct))


def _crys_unit(kind):
    holder = {}

    def mk(st, interp):
        args, kw, C = _crys_inputs(kind)(st, interp)
        holder.clear()
        holder.update({"Z": C["Z"], "struct": C["struct"], "table": C["table"]})
        return [], {}, C
    return Unit("crystal_structure.init::element loop[%s]" % kind, CRYS + ".init::loop#1", mk, _crys_post, closure=lambda interp: [holder],
                contracts={"TargetTable.__getitem__": KC.c_tt_getitem}, replay={"module": "c20", "task": "replay"})


U_CRYSTAL_ROW = [_crys_unit(k) for k in ("entry", "no entry")]

XSFM = "periodictable.xsf"


def c_table_symbol_stub(interp, st, args, kw):
    s = args[1] if not isinstance(args[1], str) else z3.StringVal(args[1])
    return ATOMS.sym(st, KC.TT_BY_SYMBOL(s))


def _lines_inputs(st, interp):
    use_state(st)
    row = st.fresh("row", z3.StringSort())
    f = [st.fresh("field%d" % i, z3.StringSort()) for i in range(3)]

    def split(interp_, st_, s, args):
        if z3.eq(s, row) and not args:
            return VList(list(f))
        raise Unsupported("split of an unexpected string")
    st.ghost["str_split"] = split
    writes = []
    st.ghost["atom_setattr"] = lambda i_, s_, v, name, value, node: writes.append((v.expr, name, value))
    table = VObj("TargetTable", {"properties": VList([])})
    return [], {}, {"row": row, "f": f, "writes": writes, "table": table}


def _lines_post(st, interp, C, res):
    if res.outcome == "raise":
        st.oblige("never-raises", False, kind="raises", info={"exc": res.exc})
        return
    f, writes = C["f"], C["writes"]
    el = KC.TT_BY_SYMBOL(f[0])
    ka = [val for (a, n, val) in writes if n == "K_alpha" and z3.eq(z3.simplify(a), z3.simplify(el))]
    kb = [val for (a, n, val) in writes if n == "K_beta1" and z3.eq(z3.simplify(a), z3.simplify(el))]
    st.oblige("post.K_alpha and K_beta1 are stored once each on the element named in column 1", z3.BoolVal(len(ka) == 1 and len(kb) == 1 and len(writes) == 2))
    if len(ka) == 1 and len(kb) == 1:
        st.oblige("post.K_alpha is column 2", spec.eq_goal(interp, st, ka[0], FLOAT_OF_STR(f[1])))
        st.oblige("post.K_beta1 is column 3", spec.eq_goal(interp, st, kb[0], FLOAT_OF_STR(f[2])))


def _lines_unit():
    holder = {}

    def mk(st, interp):
        args, kw, C = _lines_inputs(st, interp)
        holder.clear()
        holder.update({"row": C["row"], "table": C["table"]})
        return [], {}, C
    return Unit("xsf.init_spectral_lines::row loop", XSFM + ".init_spectral_lines::loop#1", mk, _lines_post, closure=lambda interp: [holder],
                contracts={"TargetTable.symbol": c_table_symbol_stub}, replay={"module": "c20", "task": "replay"})


U_SPECTRAL_ROW = _lines_unit()


# ==============================================================================  C06: mass.init, what follows the abundance loop (flush of the LAST element)

def _tail_inputs(kind):
    def mk(st, interp):
        use_state(st)
        z = st.fresh("z", z3.IntSort())
        st.assume(z > 0 if kind == "last element pending" else z == 0)
        A = [st.fresh("A%d" % i, z3.IntSort()) for i in range(2)]
        v = [st.fresh("v%d" % i, z3.RealSort()) for i in range(2)]
        dv = [st.fresh("dv%d" % i, z3.RealSort()) for i in range(2)]
        st.assume(z3.And(A[0] != A[1], A[0] > 0, A[1] > 0, v[0] > 0, v[1] > 0))
        value = VDict([[A[i], VTuple([v[i], dv[i]])] for i in range(2)])
        writes = []
        st.ghost["atom_setattr"] = lambda i_, s_, a, name, val, node: writes.append((a.expr, name, val))
        st.ghost["atom_getitem"] = lambda i_, s_, a, idx, node: ATOMS.sym(s_, KC.ISOTOPE_OF(a.expr, to_z3num(idx)))
        table = VObj("TargetTable", {})
        mk.holder.clear()
        mk.holder.update({"z": z, "value": value, "table": table})
        return [], {}, dict(kind=kind, z=z, A=A, v=v, dv=dv, writes=writes)
    mk.holder = {}
    return mk


def _tail_post(st, interp, C, res):
    if res.outcome == "raise":
        st.oblige("never-raises", False, kind="raises", info={"exc": res.exc, "line": res.lineno})
        return
    kind, z, A, v, dv, writes = C["kind"], C["z"], C["A"], C["v"], C["dv"], C["writes"]
    if kind != "last element pending":
        st.oblige("frame.an empty table leaves nothing to flush", z3.BoolVal(len(writes) == 0), kind="frame")
        return
    el = KC.TT_EL(z)
    total = v[0] + v[1]
    st.oblige("post.the element whose block ends the table is flushed too: two isotopes x (abundance, uncertainty)", z3.BoolVal(len(writes) == 4))
    for i in range(2):
        iso = KC.ISOTOPE_OF(el, A[i])
        for name, num in (("_abundance", v[i]), ("_abundance_unc", dv[i])):
            w = [val for (a, n, val) in writes if n == name and z3.eq(z3.simplify(a), z3.simplify(iso))]
            st.oblige("post.last element: isotope %d %s == 100 * value / sum of the element's values" % (i, name),
                      z3.BoolVal(len(w) == 1) if len(w) != 1 else to_real(w[0]) * total == 100 * num)


def _tail_unit(kind):
    mk = _tail_inputs(kind)
    return Unit("mass.init::after the abundance loop[%s]" % kind, MASS + ".init::after#3", mk, _tail_post,
                closure=lambda interp: [mk.holder], contracts={"TargetTable.__getitem__": KC.c_tt_getitem},
                options={"div_zero": "branch"}, replay={"module": "c06", "task": "replay"})


U_MASS_TAIL = [_tail_unit(k) for k in ("last element pending", "no element")]


# ==============================================================================  C06: mass.init, isotope rows (loop 1) and element rows (loop 2)

def _m1_inputs(st, interp):
    use_state(st)
    line = st.fresh("line", z3.StringSort())
    key, m, p, avg = (st.fresh(n, z3.StringSort()) for n in ("key", "mass_text", "p_text", "avg_text"))
    zs, sym, a_s = (st.fresh(n, z3.StringSort()) for n in ("key_Z", "key_symbol", "key_A"))
    st.assume(z3.And(z3.InRe(zs, z3.Plus(z3.Range("0", "9"))), z3.InRe(a_s, z3.Plus(z3.Range("0", "9"))), z3.Length(zs) <= 3, z3.Length(a_s) <= 3))

    def split(interp_, st_, s, args):
        if z3.eq(s, line) and args == [","]:
            return VList([key, m, p, avg])
        if z3.eq(s, key) and args == ["-"]:
            return VList([zs, sym, a_s])
        raise Unsupported("split of an unexpected string")
    st.ghost["str_split"] = split
    writes = []
    st.ghost["atom_setattr"] = lambda i_, s_, a, name, val, node: writes.append((a.expr, name, val))

    def attr(interp_, st_, v, name, node):
        if name == "add_isotope":
            return VBuiltin("add_isotope", lambda i, s_, a, k: ATOMS.sym(s_, KC.ISOTOPE_OF(v.expr, to_z3num(i.resolve(s_, a[0])))))
        return NotImplemented
    st.ghost["atom_attr_first"] = attr
    table = VObj("TargetTable", {})
    _m1_inputs.holder.clear()
    _m1_inputs.holder.update({"line": line, "table": table})
    return [], {}, dict(zs=zs, sym=sym, a_s=a_s, m=m, avg=avg, writes=writes)


_m1_inputs.holder = {}


def _m1_post(st, interp, C, res):
    Z, A = z3.StrToInt(C["zs"]), z3.StrToInt(C["a_s"])
    el = KC.TT_EL(Z)
    if res.outcome == "raise":
        st.oblige("post.a row is rejected (AssertionError) only when its symbol is not the symbol of element Z",
                  z3.And(z3.BoolVal(res.exc == "AssertionError"), T.SYMBOL(el) != C["sym"]), kind="raises", info={"exc": res.exc})
        return
    st.oblige("post.accepted rows name the symbol of element Z", T.SYMBOL(el) == C["sym"])
    iso = KC.ISOTOPE_OF(el, A)
    w = C["writes"]

    def one(atom, name):
        vals = [val for (a, n, val) in w if n == name and z3.eq(z3.simplify(a), z3.simplify(atom))]
        return vals[0] if len(vals) == 1 else None
    got = {("el", "_mass"): one(el, "_mass"), ("el", "_mass_unc"): one(el, "_mass_unc"), ("iso", "_mass"): one(iso, "_mass"),
           ("iso", "_mass_unc"): one(iso, "_mass_unc"), ("iso", "_abundance"): one(iso, "_abundance"), ("iso", "_abundance_unc"): one(iso, "_abundance_unc")}
    st.oblige("post.exactly six fields are written: element mass/unc, isotope mass/unc, isotope abundance/unc",
              z3.BoolVal(len(w) == 6 and all(v is not None for v in got.values())))
    if len(w) != 6 or any(v is None for v in got.values()):
        return
    st.oblige("post.isotope A of element Z gets the mass of column 2 (value and uncertainty)",
              z3.And(spec.eq_goal(interp, st, got[("iso", "_mass")], PU_VAL(C["m"])), spec.eq_goal(interp, st, got[("iso", "_mass_unc")], PU_UNC(C["m"]))))
    st.oblige("post.the element gets the average mass of column 4 (value and uncertainty)",
              z3.And(spec.eq_goal(interp, st, got[("el", "_mass")], PU_VAL(C["avg"])), spec.eq_goal(interp, st, got[("el", "_mass_unc")], PU_UNC(C["avg"]))))
    st.oblige("post.the abundance starts at 0 +- 0 (isotopes absent from the composition table keep it)",
              z3.And(spec.eq_goal(interp, st, got[("iso", "_abundance")], 0), spec.eq_goal(interp, st, got[("iso", "_abundance_unc")], 0)))


U_MASS_ISOTOPE_ROW = Unit("mass.init::isotope mass loop[one row]", MASS + ".init::loop#1", _m1_inputs, _m1_post, closure=lambda interp: [_m1_inputs.holder],
                          contracts={"periodictable.util.parse_uncertainty": c_parse_uncertainty, "TargetTable.__getitem__": KC.c_tt_getitem},
                          replay={"module": "c06", "task": "replay"})


def _m2_inputs(kind):
    def mk(st, interp):
        use_state(st)
        line = st.fresh("line", z3.StringSort())
        zs, sym, name, value = (st.fresh(n, z3.StringSort()) for n in ("Z_text", "symbol", "name", "value_text"))
        st.assume(z3.And(z3.InRe(zs, z3.Plus(z3.Range("0", "9"))), z3.Length(zs) <= 3))
        st.assume(value == z3.StringVal("-") if kind == "no weight" else value != z3.StringVal("-"))

        def split(interp_, st_, s, args):
            if z3.eq(s, line) and not args:
                return VList([zs, sym, name, value, st_.fresh("extra", z3.StringSort())])
            raise Unsupported("split of an unexpected string")
        st.ghost["str_split"] = split
        writes = []
        st.ghost["atom_setattr"] = lambda i_, s_, a, nm, val, node: writes.append((a.expr, nm, val))
        table = VObj("TargetTable", {})
        mk.holder.clear()
        mk.holder.update({"line": line, "table": table})
        return [], {}, dict(zs=zs, value=value, writes=writes, kind=kind)
    mk.holder = {}
    return mk


def _m2_post(st, interp, C, res):
    if res.outcome == "raise":
        st.oblige("never-raises", False, kind="raises", info={"exc": res.exc})
        return
    w = C["writes"]
    if C["kind"] == "no weight":
        st.oblige("post.'-' (no standard atomic weight) leaves the element's mass as it is", z3.BoolVal(len(w) == 0))
        return
    el = KC.TT_EL(z3.StrToInt(C["zs"]))
    m = [val for (a, n, val) in w if n == "_mass" and z3.eq(z3.simplify(a), z3.simplify(el))]
    u = [val for (a, n, val) in w if n == "_mass_unc" and z3.eq(z3.simplify(a), z3.simplify(el))]
    st.oblige("post.mass and uncertainty are written once each, on element Z", z3.BoolVal(len(m) == 1 and len(u) == 1 and len(w) == 2))
    if len(m) == 1 and len(u) == 1:
        st.oblige("post.they are the value(uncertainty) of column 4",
                  z3.And(spec.eq_goal(interp, st, m[0], PU_VAL(C["value"])), spec.eq_goal(interp, st, u[0], PU_UNC(C["value"]))))


def _m2_unit(kind):
    mk = _m2_inputs(kind)
    return Unit("mass.init::atomic weight loop[%s]" % kind, MASS + ".init::loop#2", mk, _m2_post, closure=lambda interp: [mk.holder],
                contracts={"periodictable.util.parse_uncertainty": c_parse_uncertainty, "TargetTable.__getitem__": KC.c_tt_getitem},
                replay={"module": "c06", "task": "replay"})


U_MASS_ELEMENT_ROW = [_m2_unit(k) for k in ("weight given", "no weight")]


# ==============================================================================  C20: magnetic_ff.init, line loop (loop 1)
#
# One iteration on a symbolic line `<name> = Magnetic_Form_Type("<state>", (/ seven numbers /))`.  The documented layout of
# <state> (comment in the loader, CrysFML): `M<EL><ION>` (<j0>), `J<EL><ION>` (J), `<EL><ION>` for Magnetic_j2/j4/j6, <EL> the
# element symbol in capitals (one or two letters), <ION> one digit.  Contract: the line stores its seven coefficients under the
# documented field of the form-factor record of (element <EL>, charge <ION>), creating the element's charge dictionary and the
# record when they do not exist yet, and leaves every other record, field and atom alone.

MFFM = "periodictable.magnetic_ff"
STR_CAP = z3.Function("str_capitalize", z3.StringSort(), z3.StringSort())
_UPPER = z3.Range("A", "Z")
_MFF_FORMS = {"Magnetic_Form M": ("Magnetic_Form", "M", "j0"), "Magnetic_Form J": ("Magnetic_Form", "J", "J"),
              "Magnetic_j2": ("Magnetic_j2", "", "j2"), "Magnetic_j4": ("Magnetic_j4", "", "j4"), "Magnetic_j6": ("Magnetic_j6", "", "j6")}
_MFF_FIELDS = ("j0", "j2", "j4", "j6", "J")


def _mffrow_inputs(form, store, nletters):
    prefix, lead, field = _MFF_FORMS[form]

    def mk(st, interp):
        use_state(st)
        line = st.fresh("line", z3.StringSort())
        stripped = z3.Function("str_strip", z3.StringSort(), z3.StringSort())(line)
        name = st.fresh("name", z3.StringSort())
        rhs = st.fresh("rhs", z3.StringSort())
        sym = st.fresh("EL", z3.StringSort())
        ion = st.fresh("ION", z3.StringSort())
        st.assume(z3.Contains(stripped, z3.StringVal("=")))
        st.assume(z3.PrefixOf(z3.StringVal(prefix), name))
        # fixed-length pieces (one unit per symbol length) keep the sequence solver's work trivial
        letters = [st.fresh("L%d" % i, z3.StringSort()) for i in range(nletters)]
        for c in letters:
            st.assume(z3.Length(c) == 1)
            st.assume(z3.InRe(c, _UPPER))
        st.assume(sym == (z3.Concat(*letters) if nletters > 1 else letters[0]))
        st.assume(z3.Length(ion) == 1)
        st.assume(z3.InRe(ion, z3.Range("0", "9")))
        state = z3.Concat(z3.StringVal(lead), sym, ion) if lead else z3.Concat(sym, ion)
        values = VTuple([st.fresh("c%d" % i, z3.RealSort()) for i in range(7)])

        def split(interp_, st_, s, args):
            if z3.eq(z3.simplify(s), z3.simplify(stripped)) and list(args) == ["="]:
                return VList([name, rhs])
            raise Unsupported("split of an unexpected string")
        st.ghost["str_split"] = split
        rhs_clean = z3.Function("str_replace_%s" % "_".join("%02x" % ord(c) for c in "/|"), z3.StringSort(), z3.StringSort())(rhs)

        def c_eval(interp_, st_, args, kw):
            a = interp_.resolve(st_, args[0])
            if len(args) == 1 and not kw and z3.is_expr(a) and z3.eq(z3.simplify(a), z3.simplify(rhs_clean)):
                return VTuple([state, values])
            raise Unsupported("eval of an unexpected text")

        expected_symbol = z3.If(z3.Length(sym) == 1, sym, STR_CAP(sym))
        el = KC.TT_BY_SYMBOL(expected_symbol)
        charge = z3.StrToInt(ion)
        # the element's state before the line: no dictionary yet / a dictionary without this charge / with this charge
        other_charge = st.fresh("other_charge", z3.IntSort())
        other_rec = VObj((MFFM, "MagneticFormFactor"), {})
        old_rec = VObj((MFFM, "MagneticFormFactor"), {k: VObj("Coeffs", {"of": k}) for k in _MFF_FIELDS if k != field and k != "J"})
        old_fields = dict(old_rec.attrs)
        if store == "charge known":
            old_rec.attrs[field] = VObj("Coeffs", {"of": "stale " + field})
        pre = {"first line of the element": None,
               "new charge": VDict([[other_charge, other_rec]]),
               "charge known": VDict([[other_charge, other_rec], [charge, old_rec]])}[store]
        if pre is not None:
            st.assume(other_charge != charge)
        heap = {"dict": pre}
        writes = []
        reads = []

        def on_set(i_, s_, v, nm, value, node):
            writes.append((v.expr, nm, value))
            if nm == "magnetic_ff":
                heap["dict"] = value

        def on_get(i_, s_, v, nm, node):
            if nm == "magnetic_ff":
                reads.append(v.expr)
                if heap["dict"] is None:
                    i_.raise_("AttributeError", "no attribute 'magnetic_ff' yet", node)
                return heap["dict"]
            return NotImplemented
        st.ghost["atom_setattr"] = on_set
        st.ghost["atom_attr_first"] = on_get
        table = VObj("TargetTable", {"properties": VList(["magnetic_ff"])})
        return [], {}, {"line": line, "table": table, "eval": VBuiltin("eval", c_eval), "el": el, "charge": charge, "values": values,
                        "field": field, "store": store, "pre": pre, "pre_entries": [tuple(e) for e in pre.entries] if pre is not None else [], "heap": heap, "writes": writes, "reads": reads, "other_charge": other_charge,
                        "other_rec": other_rec, "old_rec": old_rec, "old_fields": old_fields}
    return mk


def _mffrow_post(st, interp, C, res):
    if res.outcome == "raise":
        st.oblige("never-raises", False, kind="raises", info={"exc": res.exc})
        return
    writes, heap, store, field = C["writes"], C["heap"], C["store"], C["field"]
    if store == "first line of the element":
        ok = len(writes) == 1 and writes[0][1] == "magnetic_ff" and isinstance(writes[0][2], VDict)
        st.oblige("post.one atom gets a charge dictionary, once, and nothing else is stored on atoms", z3.BoolVal(ok))
        if ok:
            st.oblige("post.that atom is the element <EL> of the line (capitals -> symbol)", writes[0][0] == C["el"])
    else:
        st.oblige("post.an element that has a charge dictionary keeps that dictionary (no atom is written)",
                  z3.BoolVal(len(writes) == 0 and heap["dict"] is C["pre"]))
    d = heap["dict"]
    if not isinstance(d, VDict):
        return
    # entries of the dictionary after the line: the ones that were there before (same key objects) and what the line added
    before = [] if C["pre"] is None else list(C["pre_entries"])
    kept = [(k, v) for (k, v) in d.entries if any(k is k0 for (k0, _) in before)]
    added = [(k, v) for (k, v) in d.entries if not any(k is k0 for (k0, _) in before)]
    st.oblige("post.the records that were there stay under their charges, the same objects",
              z3.BoolVal(len(kept) == len(before) and all(k1 is k2 and v1 is v2 for (k1, v1), (k2, v2) in zip(kept, before))
                         and not C["other_rec"].attrs))
    if store == "charge known":
        st.oblige("post.a charge that has a record gets no second entry", z3.BoolVal(not added))
        mine = [v for (k, v) in kept if k is C["charge"]]
    else:
        st.oblige("post.one entry is added", z3.BoolVal(len(added) == 1))
        if len(added) == 1:
            st.oblige("post.the new record is filed under the charge <ION> of the line", spec.eq_goal(interp, st, added[0][0], C["charge"]))
        mine = [v for (k, v) in added]
    if len(mine) != 1:
        return
    rec = mine[0]
    is_rec = isinstance(rec, VObj) and rec.cls == (MFFM, "MagneticFormFactor")
    st.oblige("post.the entry is a MagneticFormFactor record", z3.BoolVal(is_rec))
    if not is_rec:
        return
    if store == "charge known":
        st.oblige("post.a charge that has a record keeps that record object", z3.BoolVal(rec is C["old_rec"]))
    st.oblige("post.the seven coefficients of the line are stored under the documented field (M -> j0, J -> J, Magnetic_jn -> jn)",
              z3.BoolVal(rec.attrs.get(field) is C["values"]))
    keep = C["old_fields"] if store == "charge known" else {}
    rest = {k: v for k, v in rec.attrs.items() if k != field}
    st.oblige("post.the other fields of the record are as before (none for a new record)",
              z3.BoolVal(set(rest) == set(keep) and all(rest[k] is keep[k] for k in keep)))


def _mffrow_unit(form, store, nletters):
    holder = {}

    def mk(st, interp):
        args, kw, C = _mffrow_inputs(form, store, nletters)(st, interp)
        holder.clear()
        holder.update({"line": C["line"], "table": C["table"], "eval": C["eval"]})
        return [], {}, C
    return Unit("magnetic_ff.init::line loop[%s, %d-letter symbol, %s]" % (form, nletters, store), MFFM + ".init::loop#1", mk, _mffrow_post, closure=lambda interp: [holder],
                contracts={"TargetTable.symbol": c_table_symbol_stub}, writes=[_MFF_FORMS[form][2]], replay={"module": "c20", "task": "replay"})


U_MAGNETIC_ROW = [_mffrow_unit(f, s, n) for f in _MFF_FORMS for n in (1, 2) for s in ("first line of the element", "new charge", "charge known")]
