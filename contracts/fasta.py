"""Sidecar contracts for periodictable/fasta.py (C18)."""
import z3

from pyvc import spec, shims, theories as T
from pyvc.contract import Unit, Lemma
from pyvc.state import State
from pyvc.values import *   # noqa
from pyvc.values import VObj, VOpt, VSym, VTuple, VList, VDict, Cx, Unsupported, VFunc
from .common import ATOMS, SEQS, use_state
from . import mixtures as MX
from . import formulas as FC

FASTA = "periodictable.fasta"
RSTRIP = z3.Function("str_rstrip", z3.StringSort(), z3.StringSort())


def R(x):
    return to_real(x)


# ------------------------------------------------------------------------------ _guess_type_from_filename

def _gt_inputs(given):
    def mk(st, interp):
        fn = st.fresh("filename", z3.StringSort())
        st.assume(z3.Length(fn) <= 20)
        return [fn, "dna" if given else None], {}, {"fn": fn, "given": given}
    return mk


def _gt_post(st, interp, C, res):
    if res.outcome == "raise":
        st.oblige("never-raises", False, kind="raises")
        return
    fn = C["fn"]
    v = res.value
    if C["given"]:
        st.oblige("post.an explicit type wins", z3.BoolVal(v == "dna"))
        return
    ends = lambda e: z3.SuffixOf(z3.StringVal(e), fn)
    want = z3.If(ends(".fna"), z3.StringVal("dna"), z3.If(ends(".ffn"), z3.StringVal("dna"),
                 z3.If(ends(".faa"), z3.StringVal("aa"), z3.If(ends(".frn"), z3.StringVal("rna"), z3.StringVal("aa")))))
    st.oblige("post.type by extension: .fna/.ffn dna, .faa aa, .frn rna, otherwise aa",
              z3.BoolVal(isinstance(v, str)) if not isinstance(v, str) else z3.StringVal(v) == want)


U_GUESS_TYPE = [Unit("_guess_type_from_filename[type %s]" % ("given" if g else "None"), FASTA + "._guess_type_from_filename",
                     _gt_inputs(g), _gt_post, replay={"module": "c18", "task": "replay"}) for g in (False, True)]


# ------------------------------------------------------------------------------ read_fasta (record structure)

def _rf_inputs(n):
    def mk(st, interp):
        lines = [st.fresh("line%d" % i, z3.StringSort()) for i in range(n)]
        for l in lines:
            st.assume(z3.Length(l) <= 6)
        return [VList(list(lines))], {}, {"lines": lines}
    return mk


def _rf_post(st, interp, C, res):
    if res.outcome == "raise":
        st.oblige("never-raises", False, kind="raises", info={"exc": res.exc})
        return
    lines = [RSTRIP(l) for l in C["lines"]]
    is_hdr = [z3.PrefixOf(z3.StringVal(">"), l) for l in lines]
    recs = res.value.items if isinstance(res.value, VList) else None
    st.oblige("post.returns records", z3.BoolVal(recs is not None))
    if recs is None:
        return
    n = len(lines)
    # on this path the header pattern is decided; read it off the path condition with the solver
    pattern = []
    for h in is_hdr:
        if not st.feasible(z3.Not(h)):
            pattern.append(True)
        elif not st.feasible(h):
            pattern.append(False)
        else:
            pattern.append(None)
    st.oblige("post.header pattern decided on every path", z3.BoolVal(all(p is not None for p in pattern)))
    if any(p is None for p in pattern):
        return
    want = []
    cur = None
    for i in range(n):
        if pattern[i]:
            if cur is not None:
                want.append(cur)
            cur = [lines[i], []]
        elif cur is not None:
            cur[1].append(lines[i])
    if cur is not None:
        want.append(cur)
    st.oblige("post.one record per '>' header (text before the first header belongs to no record)",
              z3.BoolVal(len(recs) == len(want)))
    if len(recs) != len(want):
        return
    for k, (rec, (name, body)) in enumerate(zip(recs, want)):
        ok = isinstance(rec, VTuple) and len(rec.items) == 2
        st.oblige("post.record %d is a (name, sequence) pair" % k, z3.BoolVal(ok))
        if not ok:
            continue
        st.oblige("post.record %d name is its header line" % k, spec.eq_goal(interp, st, rec.items[0], name))
        seq = z3.StringVal("") if not body else (body[0] if len(body) == 1 else z3.Concat(*body))
        st.oblige("post.record %d sequence is the concatenation of the lines that follow the header" % k,
                  spec.eq_goal(interp, st, rec.items[1], seq))


U_READ_FASTA = [Unit("read_fasta[%d lines]" % n, FASTA + ".read_fasta", _rf_inputs(n), _rf_post,
                     replay={"module": "c18", "task": "replay"}) for n in (0, 1, 2, 4)]


# ------------------------------------------------------------------------------ _code_average

def _avg_inputs(n):
    def mk(st, interp):
        use_state(st)
        table = []
        bases = "ABC"[:n]
        recs = []
        for c in bases:
            f = FC.new_formula(st, "base_" + c)
            vol, ch = st.fresh("volume_" + c, z3.RealSort()), st.fresh("charge_" + c, z3.RealSort())
            rec = VObj("Residue", {"labile_formula": f, "cell_volume": vol, "charge": ch})
            table.append([c, rec])
            recs.append((f, vol, ch))
        return [bases, VDict(table)], {}, {"recs": recs, "n": n}
    return mk


def c_parse_formula_empty(interp, st, args, kw):
    if args or kw:
        raise Unsupported("parse_formula with arguments")
    return MX.c_formula_empty(interp, st, [], {})


def _avg_post(st, interp, C, res):
    if res.outcome == "raise":
        st.oblige("never-raises", False, kind="raises", info={"exc": res.exc})
        return
    v = res.value
    ok = isinstance(v, VTuple) and len(v.items) == 3 and isinstance(v.items[0], VObj)
    st.oblige("post.returns (formula, cell_volume, charge)", z3.BoolVal(ok))
    if not ok:
        return
    n, recs = C["n"], C["recs"]
    x = st.fresh("x_sk", T.Atom)
    for fact in MX.den_facts(st):
        st.assume(fact(x))
    have = T.DEN(MX.seq_of(v.items[0]), x)
    if n == 0:
        st.oblige("post.empty code: empty formula", have == 0)
        return
    want = z3.Sum([T.DEN(f.attrs["structure"].expr, x) for f, _, _ in recs]) / n
    st.oblige("post.atoms are the equal-weight average of the residues", have == want)
    st.oblige("post.cell volume is the average", R(v.items[1]) == z3.Sum([vol for _, vol, _ in recs]) / n)
    st.oblige("post.charge is the average", R(v.items[2]) == z3.Sum([ch for _, _, ch in recs]) / n)


U_CODE_AVERAGE = [Unit("_code_average[%d residues]" % n, FASTA + "._code_average", _avg_inputs(n), _avg_post,
                       contracts=dict(MX.MIX_CALLEE, **{"periodictable.formulas.formula": c_parse_formula_empty}),
                       replay={"module": "c18", "task": "replay"}) for n in (0, 1, 2, 3)]


# ------------------------------------------------------------------------------ Molecule.__init__

def _mol_table():
    h1 = VObj("AtomStub", {"name": "H[1]"})
    H = VObj("ElStub", {"name": "H", "iso": {1: h1}})
    return VObj("TableStub", {"H": H, "D": VObj("AtomStub", {"name": "D"}), "T": VObj("AtomStub", {"name": "T"})}), h1


def c_default_table(interp, st, args, kw):
    return st.ghost["mol_table"]


def c_elstub_getitem(interp, st, args, kw):
    return args[0].attrs["iso"][args[1]]


def c_mol_parse(interp, st, args, kw):
    st.ghost["mol_parse_call"] = (list(args), dict(kw))
    return st.ghost["mol_M"]


def c_mol_replace(interp, st, args, kw):
    src, tgt = args[1], args[2]
    st.ghost.setdefault("mol_replace_calls", []).append((args[0], src, tgt))
    mm = st.fresh("molecular_mass_of_replaced", z3.RealSort())
    st.assume(mm > 0)
    r = VObj("FormulaStub", {"of": args[0], "replaced": (src.attrs["name"], tgt.attrs["name"]), "atoms": VDict([]),
                             "mass": st.fresh("mass_of_replaced", z3.RealSort()), "molecular_mass": mm,
                             "density": args[0].attrs["density"]})
    st.ghost.setdefault("mol_replace_results", []).append(r)
    return r


def c_mol_neutron_sld(interp, st, args, kw):
    f = args[0]
    st.ghost.setdefault("mol_sld_calls", []).append((f, dict(kw)))
    return VTuple([st.fresh("sld_real", z3.RealSort()), st.fresh("sld_imag", z3.RealSort()), st.fresh("sld_incoh", z3.RealSort())])


def c_mol_d2omatch(interp, st, args, kw):
    st.ghost["mol_match_call"] = list(args)
    return st.fresh("match", z3.RealSort())


def _mol_inputs(mode):
    def mk(st, interp):
        use_state(st)
        table, h1 = _mol_table()
        st.ghost["mol_table"] = table
        mm = st.fresh("molecular_mass", z3.RealSort())
        rho = st.fresh("density", z3.RealSort())
        st.assume(z3.And(mm > 0, rho > 0))
        M = VObj("FormulaStub", {"atoms": VDict([[table.attrs["T"], 1]] if mode == "tritium" else []), "molecular_mass": mm,
                                 "mass": st.fresh("mass", z3.RealSort()), "density": VOpt(z3.BoolVal(False), rho)})
        st.ghost["mol_M"] = M
        self = VObj((FASTA, "Molecule"), {})
        name, text = VObj("Arg", {"what": "name"}), VObj("Arg", {"what": "formula"})
        kw = {}
        C = {"self": self, "M": M, "mm": mm, "rho": rho, "mode": mode, "name": name, "text": text, "table": table, "h1": h1}
        if mode in ("cell_volume", "tritium"):
            C["cv"] = kw["cell_volume"] = st.fresh("cell_volume", z3.RealSort())
            st.assume(C["cv"] >= 0)
            C["tritium"] = (mode == "tritium")
            C["mode"] = "cell_volume"
        else:
            C["given_density"] = kw["density"] = VObj("Arg", {"what": "density"})
        C["charge"] = kw["charge"] = VObj("Arg", {"what": "charge"})
        return [self, name, text], kw, C
    return mk


def _mol_post(st, interp, C, res):
    if res.outcome == "raise":
        st.oblige("never-raises", False, kind="raises", info={"exc": res.exc})
        return
    a = C["self"].attrs
    M = C["M"]
    want = {"name", "cell_volume", "sld", "Dsld", "mass", "Dmass", "D2Omatch", "charge", "natural_formula", "labile_formula", "formula"}
    st.oblige("post.has exactly the documented fields", z3.BoolVal(set(a) == want), info={"fields": sorted(a)})
    if set(a) != want:
        return
    pargs, pkw = st.ghost.get("mol_parse_call", ([], {}))
    st.oblige("post.the formula text is parsed once; a given density is its NATURAL density",
              z3.BoolVal(len(pargs) == 1 and pargs[0] is C["text"] and set(pkw) == {"natural_density"}
                         and (pkw["natural_density"] is C.get("given_density") if C["mode"] == "density" else pkw["natural_density"] is None)))
    reps = st.ghost.get("mol_replace_calls", [])
    if C.get("tritium"):
        # deprecated spelling: T marks the labile hydrogens; it is first rewritten to H[1], everything else as usual
        ok0 = len(reps) == 3 and reps[0][0] is M and reps[0][1] is C["table"].attrs["T"] and reps[0][2] is C["h1"]
        st.oblige("post.tritium (deprecated marker of labile hydrogen) is first replaced by H[1] in the parsed formula", z3.BoolVal(ok0))
        if not ok0:
            return
        M = st.ghost["mol_replace_results"][0]
        reps = reps[1:]
    ok = len(reps) == 2 and all(r[0] is M and r[1] is C["h1"] for r in reps) \
        and reps[0][2] is C["table"].attrs["H"] and reps[1][2] is C["table"].attrs["D"]
    st.oblige("post.H-form = labile H[1] -> H, D-form = labile H[1] -> D, both of the parsed formula", z3.BoolVal(ok))
    if not ok:
        return
    H, D = a["natural_formula"], a["formula"]
    st.oblige("post.labile_formula and formula are the parsed formula, natural_formula its H-form",
              z3.BoolVal(a["labile_formula"] is M and a["formula"] is M and isinstance(H, VObj) and H.attrs.get("replaced") == ("H[1]", "H")))
    slds = st.ghost.get("mol_sld_calls", [])
    ok = len(slds) == 2 and slds[0][0].attrs.get("replaced") == ("H[1]", "H") and slds[1][0].attrs.get("replaced") == ("H[1]", "D") \
        and not slds[0][1] and not slds[1][1]
    st.oblige("post.sld / Dsld are neutron_sld (default wavelength) of the H-form / D-form", z3.BoolVal(ok))
    Hf, Df = slds[0][0] if ok else None, slds[1][0] if ok else None
    if ok:
        st.oblige("post.mass / Dmass are the masses of the H-form / D-form",
                  z3.BoolVal(a["mass"] is Hf.attrs["mass"] and a["Dmass"] is Df.attrs["mass"]))
        mc = st.ghost.get("mol_match_call", [])
        st.oblige("post.D2Omatch is computed from (sld, Dsld)", z3.BoolVal(len(mc) == 2 and mc[0] is a["sld"] and mc[1] is a["Dsld"]))
    if C["mode"] == "cell_volume":
        cv, mm = C["cv"], (M.attrs["molecular_mass"] if C.get("tritium") else C["mm"])
        st.oblige("post.cell_volume is the caller's", spec.eq_goal(interp, st, a["cell_volume"], cv))
        d = M.attrs["density"]
        dval = d.val if isinstance(d, VOpt) else d
        st.oblige("post.density of the parsed formula = 1e24 M/(N_A V) for V > 0 (0 for an empty cell)",
                  spec.eq_goal(interp, st, dval, z3.If(cv > 0, z3.RealVal(10 ** 24) * mm / cv, 0)))
    else:
        st.oblige("post.cell_volume = 1e24 M/(N_A rho)", spec.eq_goal(interp, st, a["cell_volume"], z3.RealVal(10 ** 24) * C["mm"] / C["rho"]))
    st.oblige("post.name and charge are the caller's", z3.BoolVal(a["name"] is C["name"] and a["charge"] is C["charge"]))


U_MOLECULE_INIT = [Unit("Molecule.__init__[%s]" % m, FASTA + ".Molecule.__init__", _mol_inputs(m), _mol_post,
                        contracts={"periodictable.core.default_table": c_default_table, "ElStub.__getitem__": c_elstub_getitem,
                                   "periodictable.formulas.formula": c_mol_parse, "FormulaStub.replace": c_mol_replace,
                                   "periodictable.nsf.neutron_sld": c_mol_neutron_sld, FASTA + ".D2Omatch": c_mol_d2omatch},
                        writes={"*"}, replay={"module": "c18", "task": "replay"})
                   for m in ("cell_volume", "density", "tritium")]


# ------------------------------------------------------------------------------ Sequence.__init__

def c_seq_parse(interp, st, args, kw):
    st.ghost["seq_parse_arg"] = args[0]
    return VObj("FormulaStub", {"hill": VObj("HillOf", {"structure": args[0]})})


def c_seq_molinit(interp, st, args, kw):
    st.ghost["seq_molinit"] = (list(args), dict(kw))
    return None


def _seq_inputs(text):
    def mk(st, interp):
        use_state(st)
        letters = sorted(set(text) - set(" *"))
        parts = {}
        for ch in letters:
            cv = st.fresh("cell_volume_" + ch, z3.RealSort())
            q = st.fresh("charge_" + ch, z3.IntSort())
            item = VTuple([st.fresh("count_" + ch, z3.RealSort()), VObj("AtomStub", {"name": "atom-of-" + ch})])
            parts[ch] = VObj("MolStub", {"cell_volume": cv, "charge": q,
                                         "labile_formula": VObj("FormulaStub", {"structure": VTuple([item])}), "item": item})
        table = VDict([[ch, parts[ch]] for ch in letters])
        self = VObj((FASTA, "Sequence"), {})
        name = VObj("Arg", {"what": "name"})
        return [self, name, text], {"type": "xx"}, {"self": self, "name": name, "parts": parts, "text": text}
    return mk


def _seq_env(text):
    return None


def _seq_post(st, interp, C, res):
    text = C["text"]
    clean = text.split("*", 1)[0].replace(" ", "")
    if res.outcome == "raise":
        st.oblige("never-raises", False, kind="raises", info={"exc": res.exc})
        return
    a = C["self"].attrs
    st.oblige("post.sequence is the text up to the first '*' without blanks", z3.BoolVal(a.get("sequence") == clean), info={"got": str(a.get("sequence"))})
    arg = st.ghost.get("seq_parse_arg")
    items = list(arg.items) if isinstance(arg, (VList, VTuple)) else None
    want = [C["parts"][ch].attrs["item"] for ch in clean]
    st.oblige("post.the formula is built from the residues' labile structures, one per letter, in order",
              z3.BoolVal(items is not None and len(items) == len(want) and all(x is y for x, y in zip(items, want))))
    margs, mkw = st.ghost.get("seq_molinit", ([], {}))
    ok = len(margs) == 3 and margs[0] is C["self"] and margs[1] is C["name"] and isinstance(margs[2], VObj) and margs[2].cls == "HillOf" \
        and margs[2].attrs["structure"] is arg and set(mkw) == {"cell_volume", "charge"}
    st.oblige("post.Molecule.__init__(self, name, <Hill form of that formula>, cell_volume=, charge=) is called", z3.BoolVal(ok))
    if not ok:
        return
    cv = sum((C["parts"][ch].attrs["cell_volume"] for ch in clean), z3.RealVal(0))
    q = sum((C["parts"][ch].attrs["charge"] for ch in clean), z3.IntVal(0))
    st.oblige("post.cell_volume is the sum over the letters (with multiplicity)", spec.eq_goal(interp, st, mkw["cell_volume"], cv))
    st.oblige("post.charge is the sum over the letters (with multiplicity)", spec.eq_goal(interp, st, mkw["charge"], q))


def _seq_unit(text):
    def mk(st, interp):
        args, kw, C = _seq_inputs(text)(st, interp)
        interp.env_overrides[(FASTA, "CODE_TABLES")] = VDict([["xx", VDict([[ch, p] for ch, p in C["parts"].items()])]])
        return args, kw, C
    return Unit("Sequence.__init__[%r]" % text, FASTA + ".Sequence.__init__", mk, _seq_post,
                contracts={"periodictable.formulas.formula": c_seq_parse, FASTA + ".Molecule.__init__": c_seq_molinit},
                writes={"*"}, replay={"module": "c18", "task": "replay"})


U_SEQUENCE_INIT = [_seq_unit(t) for t in ("", "A", "AB", "ABA", "A B*AA", "*A")]
