"""Sidecar contracts for periodictable/fasta.py (C18)."""
import z3

from pyvc import spec, shims, theories as T
from pyvc.contract import Unit, Lemma
from pyvc.state import State
from pyvc.values import *   # noqa
from pyvc.values import VObj, VOpt, VSym, VTuple, VList, VDict, Cx, Unsupported, VFunc
from .common import ATOMS, SEQS, use_state
from . import mixtures as MX
from . import formulas as FC

FASTA = "periodictable.fasta"
RSTRIP = z3.Function("str_rstrip", z3.StringSort(), z3.StringSort())


def R(x):
    return to_real(x)


# ------------------------------------------------------------------------------ _guess_type_from_filename

def _gt_inputs(given):
    def mk(st, interp):
        fn = st.fresh("filename", z3.StringSort())
        st.assume(z3.Length(fn) <= 20)
        return [fn, "dna" if given else None], {}, {"fn": fn, "given": given}
    return mk


def _gt_post(st, interp, C, res):
    if res.outcome == "raise":
        st.oblige("never-raises", False, kind="raises")
        return
    fn = C["fn"]
    v = res.value
    if C["given"]:
        st.oblige("post.an explicit type wins", z3.BoolVal(v == "dna"))
        return
    ends = lambda e: z3.SuffixOf(z3.StringVal(e), fn)
    want = z3.If(ends(".fna"), z3.StringVal("dna"), z3.If(ends(".ffn"), z3.StringVal("dna"),
                 z3.If(ends(".faa"), z3.StringVal("aa"), z3.If(ends(".frn"), z3.StringVal("rna"), z3.StringVal("aa")))))
    st.oblige("post.type by extension: .fna/.ffn dna, .faa aa, .frn rna, otherwise aa",
              z3.BoolVal(isinstance(v, str)) if not isinstance(v, str) else z3.StringVal(v) == want)


U_GUESS_TYPE = [Unit("_guess_type_from_filename[type %s]" % ("given" if g else "None"), FASTA + "._guess_type_from_filename",
                     _gt_inputs(g), _gt_post, replay={"module": "c18", "task": "replay"}) for g in (False, True)]


# ------------------------------------------------------------------------------ read_fasta (record structure)

def _rf_inputs(n):
    def mk(st, interp):
        lines = [st.fresh("line%d" % i, z3.StringSort()) for i in range(n)]
        for l in lines:
            st.assume(z3.Length(l) <= 6)
        return [VList(list(lines))], {}, {"lines": lines}
    return mk


def _rf_post(st, interp, C, res):
    if res.outcome == "raise":
        st.oblige("never-raises", False, kind="raises", info={"exc": res.exc})
        return
    lines = [RSTRIP(l) for l in C["lines"]]
    is_hdr = [z3.PrefixOf(z3.StringVal(">"), l) for l in lines]
    recs = res.value.items if isinstance(res.value, VList) else None
    st.oblige("post.returns records", z3.BoolVal(recs is not None))
    if recs is None:
        return
    n = len(lines)
    # on this path the header pattern is decided; read it off the path condition with the solver
    pattern = []
    for h in is_hdr:
        if not st.feasible(z3.Not(h)):
            pattern.append(True)
        elif not st.feasible(h):
            pattern.append(False)
        else:
            pattern.append(None)
    st.oblige("post.header pattern decided on every path", z3.BoolVal(all(p is not None for p in pattern)))
    if any(p is None for p in pattern):
        return
    want = []
    cur = None
    for i in range(n):
        if pattern[i]:
            if cur is not None:
                want.append(cur)
            cur = [lines[i], []]
        elif cur is not None:
            cur[1].append(lines[i])
    if cur is not None:
        want.append(cur)
    st.oblige("post.one record per '>' header (text before the first header belongs to no record)",
              z3.BoolVal(len(recs) == len(want)))
    if len(recs) != len(want):
        return
    for k, (rec, (name, body)) in enumerate(zip(recs, want)):
        ok = isinstance(rec, VTuple) and len(rec.items) == 2
        st.oblige("post.record %d is a (name, sequence) pair" % k, z3.BoolVal(ok))
        if not ok:
            continue
        st.oblige("post.record %d name is its header line" % k, spec.eq_goal(interp, st, rec.items[0], name))
        seq = z3.StringVal("") if not body else (body[0] if len(body) == 1 else z3.Concat(*body))
        st.oblige("post.record %d sequence is the concatenation of the lines that follow the header" % k,
                  spec.eq_goal(interp, st, rec.items[1], seq))


U_READ_FASTA = [Unit("read_fasta[%d lines]" % n, FASTA + ".read_fasta", _rf_inputs(n), _rf_post,
                     replay={"module": "c18", "task": "replay"}) for n in (0, 1, 2, 4)]


# ------------------------------------------------------------------------------ _code_average

def _avg_inputs(n):
    def mk(st, interp):
        use_state(st)
        table = []
        bases = "ABC"[:n]
        recs = []
        for c in bases:
            f = FC.new_formula(st, "base_" + c)
            vol, ch = st.fresh("volume_" + c, z3.RealSort()), st.fresh("charge_" + c, z3.RealSort())
            rec = VObj("Residue", {"labile_formula": f, "cell_volume": vol, "charge": ch})
            table.append([c, rec])
            recs.append((f, vol, ch))
        return [bases, VDict(table)], {}, {"recs": recs, "n": n}
    return mk


def c_parse_formula_empty(interp, st, args, kw):
    if args or kw:
        raise Unsupported("parse_formula with arguments")
    return MX.c_formula_empty(interp, st, [], {})


def _avg_post(st, interp, C, res):
    if res.outcome == "raise":
        st.oblige("never-raises", False, kind="raises", info={"exc": res.exc})
        return
    v = res.value
    ok = isinstance(v, VTuple) and len(v.items) == 3 and isinstance(v.items[0], VObj)
    st.oblige("post.returns (formula, cell_volume, charge)", z3.BoolVal(ok))
    if not ok:
        return
    n, recs = C["n"], C["recs"]
    x = st.fresh("x_sk", T.Atom)
    for fact in MX.den_facts(st):
        st.assume(fact(x))
    have = T.DEN(MX.seq_of(v.items[0]), x)
    if n == 0:
        st.oblige("post.empty code: empty formula", have == 0)
        return
    want = z3.Sum([T.DEN(f.attrs["structure"].expr, x) for f, _, _ in recs]) / n
    st.oblige("post.atoms are the equal-weight average of the residues", have == want)
    st.oblige("post.cell volume is the average", R(v.items[1]) == z3.Sum([vol for _, vol, _ in recs]) / n)
    st.oblige("post.charge is the average", R(v.items[2]) == z3.Sum([ch for _, _, ch in recs]) / n)


U_CODE_AVERAGE = [Unit("_code_average[%d residues]" % n, FASTA + "._code_average", _avg_inputs(n), _avg_post,
                       contracts=dict(MX.MIX_CALLEE, **{"periodictable.formulas.formula": c_parse_formula_empty}),
                       replay={"module": "c18", "task": "replay"}) for n in (0, 1, 2, 3)]
