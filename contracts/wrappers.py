"""Thin public entry points: functions whose whole body forwards to another function.  Their contract is
"the callee is called exactly once with the caller's arguments, unchanged and in order, and its result (or the
stated component of it) is returned" - so a property proved for the callee carries to the entry point users
actually call (package-level `periodictable.formula`, `neutron_sld`, ..., `nsf.neutron_sld`, the magnetic
form-factor methods, the mass/abundance getters)."""
import z3

from pyvc.contract import Unit
from pyvc.values import VObj, VTuple, VOpt
from pyvc import spec
from .common import use_state


class _Calls:
    """per-state log of the recorded callee calls"""


def c_record(tag, nres=None):
    def c(interp, st, args, kw):
        log = st.ghost.setdefault("recorded_calls", [])
        call = VObj("Call", {"fn": tag, "args": list(args), "kw": dict(kw)})
        log.append(call)
        if nres is None:
            call.attrs["result"] = VObj("Ret", {"of": tag})
        else:
            call.attrs["result"] = VTuple([VObj("Ret", {"of": tag, "i": i}) for i in range(nres)])
        return call.attrs["result"]
    return c


def _fwd_inputs(npos, kwnames):
    def mk(st, interp):
        use_state(st)
        args = [VObj("Arg", {"pos": i}) for i in range(npos)]
        kw = {k: VObj("Arg", {"kw": k}) for k in kwnames}
        return list(args), dict(kw), {"args": args, "kw": kw}
    return mk


def _fwd_post(tag, pick=None):
    def post(st, interp, C, res):
        if res.outcome == "raise":
            st.oblige("never-raises", False, kind="raises", info={"exc": res.exc})
            return
        calls = [c for c in st.ghost.get("recorded_calls", []) if c.attrs["fn"] == tag]
        st.oblige("post.calls %s exactly once" % tag, z3.BoolVal(len(calls) == 1))
        if len(calls) != 1:
            return
        c = calls[0]
        st.oblige("post.positional arguments forwarded unchanged and in order",
                  z3.BoolVal(len(c.attrs["args"]) == len(C["args"]) and all(a is b for a, b in zip(c.attrs["args"], C["args"]))))
        st.oblige("post.keyword arguments forwarded unchanged (none dropped, none added)",
                  z3.BoolVal(set(c.attrs["kw"]) == set(C["kw"]) and all(c.attrs["kw"][k] is C["kw"][k] for k in C["kw"])))
        want = c.attrs["result"] if pick is None else c.attrs["result"].items[pick]
        st.oblige("post.returns %s" % ("the callee's result" if pick is None else "component %d of the callee's result" % pick),
                  z3.BoolVal(res.value is want))
    return post


def forward_unit(name, target, callee, tag, npos, kwnames, pick=None, nres=None, replay=None, siblings=None):
    # the sibling entry points are recordable too, so that forwarding to the WRONG function fails
    # "calls <callee> exactly once" instead of leaving the unit undecided
    contracts = {c: c_record(t) for c, t in (siblings or {}).items()}
    contracts[callee] = c_record(tag, nres)
    return Unit(name, target, _fwd_inputs(npos, kwnames), _fwd_post(tag, pick), contracts=contracts, replay=replay)


P = "periodictable."
_SIB = {P + "formulas.formula": "formula", P + "formulas.mix_by_weight": "mix_by_weight", P + "formulas.mix_by_volume": "mix_by_volume",
        P + "nsf.neutron_sld": "neutron_sld", P + "nsf.neutron_scattering": "neutron_scattering", P + "xsf.xray_sld": "xray_sld",
        P + "nsf.neutron_sld_from_atoms": "neutron_sld_from_atoms", P + "xsf.xray_sld_from_atoms": "xray_sld_from_atoms"}
U_PKG = [
    forward_unit("periodictable.formula", P + "formula", P + "formulas.formula", "formula", 1, ["density", "table"], siblings=_SIB),
    forward_unit("periodictable.mix_by_weight", P + "mix_by_weight", P + "formulas.mix_by_weight", "mix_by_weight", 4, ["density", "name"], siblings=_SIB),
    forward_unit("periodictable.mix_by_volume", P + "mix_by_volume", P + "formulas.mix_by_volume", "mix_by_volume", 4, ["natural_density"], siblings=_SIB),
    forward_unit("periodictable.neutron_sld", P + "neutron_sld", P + "nsf.neutron_sld", "neutron_sld", 1, ["density", "wavelength"], siblings=_SIB),
    forward_unit("periodictable.neutron_scattering", P + "neutron_scattering", P + "nsf.neutron_scattering", "neutron_scattering", 1, ["density", "energy"], siblings=_SIB),
    forward_unit("periodictable.xray_sld", P + "xray_sld", P + "xsf.xray_sld", "xray_sld", 1, ["density", "energy"], siblings=_SIB),
]
U_NSF_NEUTRON_SLD = forward_unit("nsf.neutron_sld", P + "nsf.neutron_sld", P + "nsf.neutron_scattering", "neutron_scattering",
                                 1, ["density", "wavelength", "energy"], pick=0, nres=3, replay={"module": "c03", "task": "replay"})


# ------------------------------------------------------------------------------ magnetic form factor methods

def _mff_inputs(st, interp):
    use_state(st)
    self = VObj(("periodictable.magnetic_ff", "MagneticFormFactor"),
                {k: VObj("Coeffs", {"of": k}) for k in ("j0", "j2", "j4", "j6", "J")})
    q = VObj("Arg", {"pos": 0})
    return [self, q], {}, {"self": self, "Q": q}


def _mff_post(field, fn):
    def post(st, interp, C, res):
        if res.outcome == "raise":
            st.oblige("never-raises", False, kind="raises", info={"exc": res.exc})
            return
        calls = st.ghost.get("recorded_calls", [])
        ok = len(calls) == 1 and calls[0].attrs["fn"] == fn
        st.oblige("post.evaluates %s exactly once" % fn, z3.BoolVal(ok))
        if not ok:
            return
        a = calls[0].attrs["args"]
        st.oblige("post.with the coefficients of <%s> and the caller's Q" % field,
                  z3.BoolVal(len(a) == 2 and a[0] is C["self"].attrs[field] and a[1] is C["Q"] and not calls[0].attrs["kw"]))
        st.oblige("post.returns that value", z3.BoolVal(res.value is calls[0].attrs["result"]))
    return post


MFF = P + "magnetic_ff."
_MFF_CALLEES = {MFF + "formfactor_0": c_record("formfactor_0"), MFF + "formfactor_n": c_record("formfactor_n")}
U_MFF = [Unit("MagneticFormFactor.%s" % m, MFF + "MagneticFormFactor." + m, _mff_inputs, _mff_post(fld, fn), contracts=_MFF_CALLEES,
              replay={"module": "c20", "task": "replay"})
         for m, fld, fn in (("j0_Q", "j0", "formfactor_0"), ("j2_Q", "j2", "formfactor_n"), ("j4_Q", "j4", "formfactor_n"),
                            ("j6_Q", "j6", "formfactor_n"), ("J_Q", "J", "formfactor_0"))]


def _getm_post(st, interp, C, res):
    if res.outcome == "raise":
        st.oblige("never-raises", False, kind="raises", info={"exc": res.exc})
        return
    st.oblige("post.M is the <j0> coefficient record", z3.BoolVal(res.value is C["self"].attrs["j0"]))


U_MFF.append(Unit("MagneticFormFactor._getM", MFF + "MagneticFormFactor._getM",
                  lambda st, interp: (lambda r: ([r[0][0]], {}, r[2]))(_mff_inputs(st, interp)), _getm_post))


# ------------------------------------------------------------------------------ mass / abundance getters

def _getter_inputs(st, interp):
    use_state(st)
    iso = VObj(("periodictable.core", "Isotope"), {"_mass": VObj("Stored", {"f": "_mass"}), "_abundance": VObj("Stored", {"f": "_abundance"})})
    return [iso], {}, {"iso": iso}


def _getter_post(field):
    def post(st, interp, C, res):
        if res.outcome == "raise":
            st.oblige("never-raises", False, kind="raises", info={"exc": res.exc})
            return
        st.oblige("post.returns the stored %s of the atom it was asked about" % field, z3.BoolVal(res.value is C["iso"].attrs[field]))
    return post


U_MASS_GETTERS = [Unit("mass.mass", P + "mass.mass", _getter_inputs, _getter_post("_mass"), replay={"module": "c06", "task": "replay"}),
                  Unit("mass.abundance", P + "mass.abundance", _getter_inputs, _getter_post("_abundance"), replay={"module": "c06", "task": "replay"})]


U_FROM_ATOMS = [
    forward_unit("nsf.neutron_sld_from_atoms", P + "nsf.neutron_sld_from_atoms", P + "nsf.neutron_scattering", "neutron_scattering",
                 1, ["density", "wavelength"], pick=0, nres=3, siblings=_SIB),
    forward_unit("xsf.xray_sld_from_atoms", P + "xsf.xray_sld_from_atoms", P + "xsf.xray_sld", "xray_sld", 1, ["density", "energy"], siblings=_SIB),
]


# ------------------------------------------------------------------------------ Formula.replace / Formula.change_table

def _repl_inputs(with_portion):
    def mk(st, interp):
        use_state(st)
        self = VObj((P + "formulas", "Formula"), {"structure": VObj("Arg", {"what": "structure"})})
        src, tgt = VObj("Arg", {"what": "source"}), VObj("Arg", {"what": "target"})
        kw = {"portion": VObj("Arg", {"what": "portion"})} if with_portion else {}
        return [self, src, tgt], kw, {"self": self, "src": src, "tgt": tgt, "kw": kw}
    return mk


def _repl_post(st, interp, C, res):
    if res.outcome == "raise":
        st.oblige("never-raises", False, kind="raises", info={"exc": res.exc})
        return
    calls = [c for c in st.ghost.get("recorded_calls", []) if c.attrs["fn"] == "_isotope_substitution"]
    st.oblige("post.substitutes once", z3.BoolVal(len(calls) == 1))
    if len(calls) != 1:
        return
    c = calls[0]
    a = c.attrs["args"]
    st.oblige("post.on this formula, from source to target (in that order)",
              z3.BoolVal(len(a) == 3 and a[0] is C["self"] and a[1] is C["src"] and a[2] is C["tgt"]))
    p = c.attrs["kw"].get("portion")
    st.oblige("post.with the caller's portion (1 = all of it, when omitted)",
              z3.BoolVal(set(c.attrs["kw"]) == {"portion"} and (p is C["kw"]["portion"] if C["kw"] else p == 1)))
    st.oblige("post.returns the substituted formula", z3.BoolVal(res.value is c.attrs["result"]))


U_FORMULA_REPLACE = [Unit("Formula.replace[%s]" % ("portion" if w else "default portion"), P + "formulas.Formula.replace", _repl_inputs(w), _repl_post,
                          contracts={P + "formulas._isotope_substitution": c_record("_isotope_substitution")},
                          replay={"module": "c12", "task": "replay"}) for w in (True, False)]


def _ct_inputs(st, interp):
    use_state(st)
    s0 = VObj("Arg", {"what": "structure"})
    self = VObj((P + "formulas", "Formula"), {"structure": s0, "density": VObj("Arg", {"what": "density"}), "name": VObj("Arg", {"what": "name"})})
    t = VObj("Arg", {"what": "table"})
    return [self, t], {}, {"self": self, "s0": s0, "table": t}


def _ct_post(st, interp, C, res):
    if res.outcome == "raise":
        st.oblige("never-raises", False, kind="raises", info={"exc": res.exc})
        return
    calls = [c for c in st.ghost.get("recorded_calls", []) if c.attrs["fn"] == "_change_table"]
    ok = len(calls) == 1 and len(calls[0].attrs["args"]) == 2 and calls[0].attrs["args"][0] is C["s0"] and calls[0].attrs["args"][1] is C["table"]
    st.oblige("post.the structure is translated once, to the table asked for", z3.BoolVal(ok))
    if not ok:
        return
    st.oblige("post.the formula now holds the translated structure", z3.BoolVal(C["self"].attrs["structure"] is calls[0].attrs["result"]))
    st.oblige("post.returns the formula itself (in-place operation)", z3.BoolVal(res.value is C["self"]))


U_FORMULA_CHANGE_TABLE = Unit("Formula.change_table", P + "formulas.Formula.change_table", _ct_inputs, _ct_post,
                              contracts={P + "formulas._change_table": c_record("_change_table")}, writes={"structure"},
                              replay={"module": "c10", "task": "replay"})
