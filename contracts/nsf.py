"""Sidecar contracts for periodictable/nsf.py (C03, C04, C16, C17).

The postconditions of neutron_scattering/_calculate_scattering are the equations of the
neutron_scattering docstring (quoted in spec_scattering below); everything is over the reals (A1).
"""
import z3

from pyvc import spec, shims, theories as T
from pyvc.contract import Unit, Lemma
from pyvc.state import State
from pyvc.values import *   # noqa
from pyvc.values import VObj, VOpt, VSym, VTuple, VList, VMap, VDict, Cx, Unsupported, VArrTag, VArrN, INF, NAN
from .common import *      # noqa
from .common import (ATOMS, SEQS, FORMULAS, NSF, AVOGADRO, atoms_map, fresh_atom_map, use_state,
                     module_constant)
from . import formulas as FC

PI = shims.PI
_a = z3.Const("a!lam", T.Atom)
_ex = z3.Const("a!ex", T.Atom)
ABSORPTION_WAVELENGTH = module_constant(NSF, "ABSORPTION_WAVELENGTH")


def R(x):
    return to_real(x)


# ------------------------------------------------------------------------------ documented equations
# neutron_scattering docstring (nsf.py):
#   b_c   = sum n_k b_ck / sum n_k            sigma_s = sum n_k sigma_sk / sum n_k
#   N     = sum n_k * rho N_A / (m 1e24)      [number density per A^3]
#   rho_re = 10 N Re(b_c)   rho_im = 10 N |Im(b_c)|
#   sigma_c = 4 pi |b_c|^2 / 100     sigma_i = max(sigma_s - sigma_c, 0)
#   rho_inc = 10 N sqrt(100 sigma_i / (4 pi))
#   sigma_a = 2000 |Im b_c| lambda
#   Sigma_coh = N sigma_c  Sigma_abs = N sigma_a  Sigma_inc = N sigma_i
#   t_u = 1/(N sigma_s + Sigma_abs)

def absr(x):
    x = R(x)
    return z3.If(x >= 0, x, -x)


def spec_scattering_goals(N, lam, bre, bim, sig, result):
    """list of (name, formula): result (a VTuple) equals the documented equations"""
    (sre, sim, sinc), (coh, ab, inc), pen = result.items[0].items, result.items[1].items, result.items[2]
    sigc = 4 * PI / 100 * (bre * bre + bim * bim)
    sigi = z3.If(sig - sigc >= 0, sig - sigc, z3.RealVal(0))
    siga = 2000 * absr(bim) * lam
    goals = [
        ("sld_real == 10 N Re(b)", R(sre) == 10 * N * bre),
        ("sld_imag == 10 N |Im(b)|", R(sim) == 10 * N * absr(bim)),
        ("sld_incoherent == 10 N sqrt(100 sigma_i/(4 pi))", z3.And(R(sinc) >= 0, R(sinc) * R(sinc) == 100 * N * N * (100 * sigi / (4 * PI)))),
        ("coherent_xs == N 4 pi |b|^2/100", R(coh) == N * sigc),
        ("absorption_xs == N 2000 |Im(b)| lambda", R(ab) == N * siga),
        ("incoherent_xs == N max(sigma_s - sigma_c, 0)", R(inc) == N * sigi),
        ("penetration == 1/(N sigma_s + absorption_xs)", R(pen) * (N * sig + N * siga) == 1),
    ]
    return goals


def is_triple_tuple(v):
    return isinstance(v, VTuple) and len(v.items) == 3 and isinstance(v.items[0], VTuple) \
        and isinstance(v.items[1], VTuple) and len(v.items[0].items) == 3 and len(v.items[1].items) == 3


# ------------------------------------------------------------------------------ _calculate_scattering

def _cs_inputs(st, interp):
    use_state(st)
    N, lam, bre, bim, sig = (st.fresh(n, z3.RealSort()) for n in ("N", "wavelength", "b_re", "b_im", "sigma_s"))
    # physical inputs: positive number density and wavelength; total cross section positive
    st.assume(z3.And(N > 0, lam > 0, sig > 0))
    return [N, lam, Cx(bre, bim), sig], {}, dict(N=N, lam=lam, bre=bre, bim=bim, sig=sig)


def _cs_post(st, interp, C, res):
    if res.outcome == "raise":
        st.oblige("never-raises", False, kind="raises", info={"exc": res.exc})
        return
    if not is_triple_tuple(res.value):
        st.oblige("post.shape", False)
        return
    for name, g in spec_scattering_goals(C["N"], C["lam"], C["bre"], C["bim"], C["sig"], res.value):
        st.oblige("post." + name, g)
    (sre, sim, sinc), (coh, ab, inc), pen = res.value.items[0].items, res.value.items[1].items, res.value.items[2]
    for nm, v in (("sld_imag", sim), ("sld_incoherent", sinc), ("coherent_xs", coh), ("absorption_xs", ab),
                  ("incoherent_xs", inc)):
        st.oblige("sign.%s >= 0" % nm, R(v) >= 0)
    st.oblige("sign.penetration > 0", R(pen) > 0)


U_CALC = Unit("_calculate_scattering", NSF + "._calculate_scattering", _cs_inputs, _cs_post,
              replay={"module": "c03", "task": "replay"})


# density scaling on the real body: two runs sharing inputs  (C04)
def _cs_scale_post(st, interp, C, res):
    if res.outcome == "raise":
        st.oblige("never-raises", False, kind="raises", info={"exc": res.exc})
        return
    k = st.fresh("k", z3.RealSort())
    st.assume(k > 0)
    from pyvc import extract
    fn = VFunc(extract.extract(NSF + "._calculate_scattering"), [], qualname=NSF + "._calculate_scattering")
    r2 = interp.call_function(st, fn, [k * C["N"], C["lam"], Cx(C["bre"], C["bim"]), C["sig"]], {})
    a, b = res.value, r2
    for i, nm in enumerate(("sld_real", "sld_imag", "sld_incoherent")):
        st.oblige("scale.%s(k rho) == k %s(rho)" % (nm, nm), R(b.items[0].items[i]) == k * R(a.items[0].items[i]))
    for i, nm in enumerate(("coherent_xs", "absorption_xs", "incoherent_xs")):
        st.oblige("scale.%s(k rho) == k %s(rho)" % (nm, nm), R(b.items[1].items[i]) == k * R(a.items[1].items[i]))
    st.oblige("scale.penetration(k rho) == penetration(rho)/k", R(b.items[2]) * k == R(a.items[2]))


from pyvc.values import VFunc, PyRaise  # noqa
U_CALC_SCALE = Unit("_calculate_scattering[density scaling]", NSF + "._calculate_scattering",
                    _cs_inputs, _cs_scale_post, replay={"module": "c03", "task": "replay"},
                    doc="number density is proportional to density, so k*N stands for k*rho")


# ------------------------------------------------------------------------------ Neutron record contracts

def c_has_sld(interp, st, args, kw):
    rec = args[0]
    return T.HAS_SLD(rec.attrs["atom"].expr)


def c_scattering_by_wavelength(interp, st, args, kw):
    """(b_c(lambda), sigma_s(lambda)) of the atom: proved by unit Neutron.scattering_by_wavelength"""
    rec = args[0]
    a = rec.attrs["atom"].expr
    w = R(interp.resolve(st, args[1] if len(args) > 1 else kw["wavelength"]))
    return VTuple([Cx(T.B_RE(a, w), T.B_IM(a, w)), T.SIG_S(a, w)])


NEUTRON_REC = {"NeutronRec.has_sld": c_has_sld,
               "NeutronRec.scattering_by_wavelength": c_scattering_by_wavelength}


# ------------------------------------------------------------------------------ scattering_by_wavelength

def _sbw_inputs(table):
    def mk(st, interp):
        use_state(st)
        w = st.fresh("wavelength", z3.RealSort())
        st.assume(w > 0)
        st.ghost["is_vector"] = st.fresh("wavelength_is_vector", z3.BoolSort())
        bre, bim, tot = (st.fresh(n, z3.RealSort()) for n in ("b_c_re", "b_c_im", "total"))
        attrs = {"b_c_complex": Cx(bre, bim), "total": tot,
                 "nsf_table": VTuple([VArrTag("table_wavelength"), VArrTag("table_b_c")]) if table else None}
        self = VObj((NSF, "Neutron"), attrs)
        return [self, w], {}, dict(w=w, bre=bre, bim=bim, tot=tot, table=table)
    return mk


def _sbw_post(st, interp, C, res):
    if res.outcome == "raise":
        st.oblige("never-raises", False, kind="raises", info={"exc": res.exc})
        return
    v = res.value
    ok = isinstance(v, VTuple) and len(v.items) == 2
    st.oblige("post.returns-pair", z3.BoolVal(ok))
    if not ok:
        return
    b, s = v.items
    if not C["table"]:
        st.oblige("post.no-table: b_c is the tabulated complex b_c at every wavelength",
                  spec.eq_goal(interp, st, b, Cx(C["bre"], C["bim"])))
        st.oblige("post.no-table: sigma_s is the tabulated total cross section",
                  spec.eq_goal(interp, st, s, C["tot"]))
    else:
        w = C["w"]
        t0, t1 = shims.tag_id("table_wavelength"), shims.tag_id("table_b_c")
        want = Cx(shims.INTERP_RE(w, t0, t1), shims.INTERP_IM(w, t0, t1))
        st.oblige("post.table: b_c is interp(wavelength; table wavelengths -> table b_c), end-clamped",
                  spec.eq_goal(interp, st, b, want))
        st.oblige("post.table: sigma_s == 4 pi |b_c|^2/100",
                  spec.eq_goal(interp, st, s, 4 * PI / 100 * (want.re * want.re + want.im * want.im)))


U_SBW_PLAIN = Unit("Neutron.scattering_by_wavelength[no table]", NSF + ".Neutron.scattering_by_wavelength",
                   _sbw_inputs(False), _sbw_post, arrays=[1, "wavelength"], replay={"module": "c03", "task": "replay"})
U_SBW_TABLE = Unit("Neutron.scattering_by_wavelength[energy table]", NSF + ".Neutron.scattering_by_wavelength",
                   _sbw_inputs(True), _sbw_post, arrays=[1, "wavelength"], replay={"module": "c03", "task": "replay"})


# ------------------------------------------------------------------------------ neutron_scattering

def c_formula_for_scattering(interp, st, args, kw):
    """formulas.formula(compound, density=, natural_density=, table=) as used by the calculators:
    a Formula with an atom map and a density (contract proved in C02/C12 units; here the compound is
    abstract, so the result is an arbitrary formula).  The case density None is kept: the caller
    asserts on it."""
    F = st.ghost["the_formula"]
    return F


def c_atoms_of_abstract(interp, st, args, kw):
    return args[0].attrs["__atoms__"]


def lemma_sum_positive():
    """for f > 0 on V:  SumOver(V,f) >= 0, and > 0 as soon as V has a member (set-insertion induction)"""
    f = z3.Const("f", z3.ArraySort(T.Atom, z3.RealSort()))
    states = []
    st = State()
    e = z3.K(T.Atom, z3.BoolVal(False))
    st.oblige("base", spec.SumOver(st, e, f, T.Atom) == 0, kind="lemma")
    states.append(st)
    st = State()
    V = z3.Const("V", z3.ArraySort(T.Atom, z3.BoolSort()))
    k = z3.Const("k", T.Atom)
    st.assume(z3.Not(z3.Select(V, k)))
    st.assume(z3.Select(f, k) > 0)
    st.assume(spec.SumOver(st, V, f, T.Atom) >= 0)     # induction hypothesis
    V2 = z3.Store(V, k, z3.BoolVal(True))
    st.oblige("step", spec.SumOver(st, V2, f, T.Atom) > 0, kind="lemma")
    states.append(st)
    return states


L_SUM_POSITIVE = Lemma("SumOver.positive", lemma_sum_positive,
                       doc="a non-empty compound with positive counts has positive atom count, mass and cross section")


def assume_physical(st, A, w):
    """instances of L_SUM_POSITIVE for the sums of a compound with positive counts, positive masses
    and positive total cross sections: either the compound is empty and all sums vanish, or all
    three positive sums are positive"""
    n, M, Bre, Bim, Sg = sums(st, A, w)
    nonempty = st.fresh("compound_nonempty", z3.BoolSort())
    st.assume(z3.If(nonempty, z3.And(n > 0, M > 0, Sg > 0), z3.And(n == 0, M == 0, Sg == 0, Bre == 0, Bim == 0)))
    return n, M, Bre, Bim, Sg


def sums(st, A, w):
    """the four sums of the documented equations over the atom map A at wavelength w"""
    n = spec.SumOver(st, A.dom, z3.Lambda([_a], z3.Select(A.val, _a)), T.Atom)
    M = spec.SumOver(st, A.dom, z3.Lambda([_a], T.MASS(_a) * z3.Select(A.val, _a)), T.Atom)
    Bre = spec.SumOver(st, A.dom, z3.Lambda([_a], z3.Select(A.val, _a) * T.B_RE(_a, w)), T.Atom)
    Bim = spec.SumOver(st, A.dom, z3.Lambda([_a], z3.Select(A.val, _a) * T.B_IM(_a, w)), T.Atom)
    Sg = spec.SumOver(st, A.dom, z3.Lambda([_a], z3.Select(A.val, _a) * T.SIG_S(_a, w)), T.Atom)
    return n, M, Bre, Bim, Sg


def _ns_loop_defs(E):
    A = E.it
    st = E.st
    w = R(E.interp.resolve(st, E.cur["wavelength"]))
    V = E.V
    return {
        "num_atoms": spec.SumOver(st, V, z3.Lambda([_a], z3.Select(A.val, _a)), T.Atom),
        "molar_mass": spec.SumOver(st, V, z3.Lambda([_a], T.MASS(_a) * z3.Select(A.val, _a)), T.Atom),
        "b_c": Cx(spec.SumOver(st, V, z3.Lambda([_a], z3.Select(A.val, _a) * T.B_RE(_a, w)), T.Atom),
                  spec.SumOver(st, V, z3.Lambda([_a], z3.Select(A.val, _a) * T.B_IM(_a, w)), T.Atom)),
        "sigma_s": spec.SumOver(st, V, z3.Lambda([_a], z3.Select(A.val, _a) * T.SIG_S(_a, w)), T.Atom),
    }


def _mk_defs(names):
    return {n: (lambda E, n=n: _ns_loop_defs(E)[n]) for n in names}


def _ns_loop_inv(E):
    # no early return so far: every visited atom has neutron data
    V = E.V
    return [("visited-atoms-have-sld", spec.Forall(T.Atom, lambda a: z3.Implies(z3.Select(V, a), T.HAS_SLD(a))))]


def _ns_inputs(mode):
    def mk(st, interp):
        use_state(st)
        A = fresh_atom_map(st, "atoms", positive=False)
        rho = st.fresh("density", z3.RealSort())
        Fm = VObj("AbstractFormula", {"__atoms__": A, "density": rho})
        st.ghost["the_formula"] = Fm
        st.ghost["is_vector"] = st.fresh("wavelength_is_vector", z3.BoolSort())
        kw = {}
        C = {"A": A, "rho": rho, "mode": mode}
        if mode == "wavelength":
            w = st.fresh("wavelength", z3.RealSort())
            st.assume(w > 0)
            kw["wavelength"] = w
            C["w"] = w
        elif mode == "energy":
            e = st.fresh("energy", z3.RealSort())
            st.assume(e > 0)
            kw["energy"] = e
            w2 = st.fresh("wavelength_ignored", z3.RealSort())
            kw["wavelength"] = w2
            C["e"] = e
        else:
            C["w"] = z3.RealVal(ABSORPTION_WAVELENGTH)
        st.assume(rho >= 0)
        if mode == "energy":
            ef = interp.lookup_global(st, NSF, "ENERGY_FACTOR")
            C["w"] = R(shims.sqrt_value(interp, st, num_div(ef, C["e"])))
        C["sums"] = assume_physical(st, A, C["w"])
        return [st.fresh("compound", z3.IntSort())], kw, C
    return mk


def _ns_post(st, interp, C, res):
    if res.outcome == "raise":
        st.oblige("never-raises", False, kind="raises", info={"exc": res.exc, "line": res.lineno})
        return
    A, rho = C["A"], C["rho"]
    w = C["w"]
    n, M, Bre, Bim, Sg = C["sums"]
    # exists an atom without neutron data  <=>  (None, None, None)
    v = res.value
    none3 = isinstance(v, VTuple) and len(v.items) == 3 and all(x is None for x in v.items)
    k = st.fresh("a_nodata", T.Atom)
    if none3:
        st.oblige("post.None-triple only if some atom lacks neutron data",
                  z3.Exists([_ex], z3.And(z3.Select(A.dom, _ex), z3.Not(T.HAS_SLD(_ex)))))
        return
    st.oblige("post.values only if every atom has neutron data",
              z3.Implies(z3.Select(A.dom, k), T.HAS_SLD(k)))
    if not is_triple_tuple(v):
        st.oblige("post.shape", False)
        return
    vac = z3.Or(M * rho == 0)
    is_vac = (v.items[2] is INF)
    if is_vac:
        st.oblige("post.vacuum-result only if molar mass * density == 0", vac)
        zero = all(is_concrete_num(x) and x == 0 for x in v.items[0].items + v.items[1].items)
        st.oblige("post.vacuum-result is all zeros with infinite penetration", z3.BoolVal(zero))
        return
    st.oblige("post.non-vacuum only if molar mass * density != 0", z3.Not(vac))
    N = n * rho * z3.RealVal(AVOGADRO) / (M * z3.RealVal(10) ** 24) if False else n / ((M / rho) / z3.RealVal(AVOGADRO) * z3.RealVal(10 ** 24))
    for name, g in spec_scattering_goals(N, w, Bre / n, Bim / n, Sg / n, v):
        st.oblige("post." + name, g)


def _ns_unit(mode):
    target = NSF + ".neutron_scattering"
    return Unit("neutron_scattering[%s]" % mode, target, _ns_inputs(mode), _ns_post,
                contracts=dict(NEUTRON_REC, **{FORMULAS + ".formula": c_formula_for_scattering,
                                               "AbstractFormula.atoms@get": c_atoms_of_abstract}),
                inline={NSF + "._calculate_scattering", NSF + ".neutron_wavelength"},
                loops={(target, 1): {"iter": "compound.atoms.items()", "define": _mk_defs(["num_atoms", "molar_mass", "b_c", "sigma_s"]),
                                     "invariant": _ns_loop_inv,
                                     "havoc": {"is_energy_dependent": lambda E, st: st.fresh("is_ed", z3.BoolSort())}}},
                options={"div_zero": "branch"},
                replay={"module": "c03", "task": "replay"})


U_NS_WAVELENGTH = _ns_unit("wavelength")
U_NS_ENERGY = _ns_unit("energy")
U_NS_DEFAULT = _ns_unit("default")


# ------------------------------------------------------------------------------ Neutron.scattering / .sld

def _nrec(st, table=False):
    bre, bim, tot = (st.fresh(n, z3.RealSort()) for n in ("b_c_re", "b_c_im", "total"))
    attrs = {"b_c": VOpt(st.fresh("b_c_is_none", z3.BoolSort()), st.fresh("b_c", z3.RealSort())),
             "_number_density": VOpt(st.fresh("nd_is_none", z3.BoolSort()), st.fresh("number_density", z3.RealSort())),
             "b_c_complex": Cx(bre, bim), "total": tot, "nsf_table": None}
    return VObj((NSF, "Neutron"), attrs), bre, bim, tot


def _nscat_inputs(st, interp):
    use_state(st)
    self, bre, bim, tot = _nrec(st)
    w = st.fresh("wavelength", z3.RealSort())
    st.ghost["is_vector"] = st.fresh("wavelength_is_vector", z3.BoolSort())
    nd = self.attrs["_number_density"]
    st.assume(z3.And(w > 0, tot > 0, z3.Implies(z3.Not(nd.is_none), nd.val > 0)))
    return [self], {"wavelength": w}, dict(self=self, w=w, bre=bre, bim=bim, tot=tot)


def _nscat_post(which):
    def post(st, interp, C, res):
        if res.outcome == "raise":
            st.oblige("never-raises", False, kind="raises", info={"exc": res.exc})
            return
        self = C["self"]
        has = z3.And(z3.Not(self.attrs["b_c"].is_none), z3.Not(self.attrs["_number_density"].is_none))
        v = res.value
        none3 = isinstance(v, VTuple) and len(v.items) == 3 and all(x is None for x in v.items)
        if none3:
            st.oblige("post.None-triple exactly when no SLD is available", z3.Not(has))
            return
        st.oblige("post.values exactly when SLD is available", has)
        N = self.attrs["_number_density"].val * z3.RealVal("1e-24")
        if which == "scattering":
            if not is_triple_tuple(v):
                st.oblige("post.shape", False)
                return
            for name, g in spec_scattering_goals(N, C["w"], C["bre"], C["bim"], C["tot"], v):
                st.oblige("post." + name, g)
        else:
            ok = isinstance(v, VTuple) and len(v.items) == 3
            st.oblige("post.shape", z3.BoolVal(ok))
            if ok:
                full = VTuple([v, VTuple([0, 0, 0]), 1])
                for name, g in spec_scattering_goals(N, C["w"], C["bre"], C["bim"], C["tot"], full)[:3]:
                    st.oblige("post." + name, g)
    return post


_NINL = {NSF + ".Neutron.has_sld", NSF + ".Neutron.scattering_by_wavelength", NSF + "._calculate_scattering",
         NSF + ".Neutron.scattering"}
U_NSCAT = Unit("Neutron.scattering", NSF + ".Neutron.scattering", _nscat_inputs, _nscat_post("scattering"),
               inline=_NINL, replay={"module": "c03", "task": "replay"})
U_NSLD = Unit("Neutron.sld", NSF + ".Neutron.sld", _nscat_inputs, _nscat_post("sld"),
              inline=_NINL, replay={"module": "c03", "task": "replay"})


def lemma_element_vs_compound():
    """an element or isotope queried directly uses N = number_density*1e-24 with number_density =
    rho_el N_A / m_el (density.number_density; for isotopes nsf.init stores the element's).  The
    one-atom compound at the atom's own density uses N = 1/((m/rho)/N_A*1e24) with, for an isotope,
    rho = rho_el*m_iso/m_el (density.density).  Both are the same number."""
    st = State()
    rho_el, m_el, m_iso = z3.Reals("rho_el m_el m_iso")
    NA = z3.RealVal(AVOGADRO)
    st.assume(z3.And(rho_el > 0, m_el > 0, m_iso > 0))
    nd = rho_el * NA / m_el
    direct = nd * z3.RealVal("1e-24")
    comp_el = 1 / ((m_el / rho_el) / NA * z3.RealVal(10 ** 24))
    rho_iso = rho_el * m_iso / m_el
    comp_iso = 1 / ((m_iso / rho_iso) / NA * z3.RealVal(10 ** 24))
    st.oblige("element", direct == comp_el, kind="lemma", assume_after=False)
    st.oblige("isotope", direct == comp_iso, kind="lemma", assume_after=False)
    return [st]


L_ELEMENT_VS_COMPOUND = Lemma("element-vs-one-atom-compound", lemma_element_vs_compound)


# ------------------------------------------------------------------------------ conversions (C04)

def _conv_unit(fname, check):
    def mk(st, interp):
        x = st.fresh("x", z3.RealSort())
        st.assume(x > 0)
        return [x], {}, {"x": x}

    def post(st, interp, C, res):
        if res.outcome == "raise":
            st.oblige("never-raises-for-positive-argument", False, kind="raises", info={"exc": res.exc})
            return
        check(st, interp, C["x"], R(res.value))
    return Unit(fname, NSF + "." + fname, mk, post, replay={"module": "c04", "task": "replay"})


def _ef(st, interp):
    return R(interp.lookup_global(st, NSF, "ENERGY_FACTOR"))


def _vf(st, interp):
    return R(interp.lookup_global(st, NSF, "VELOCITY_FACTOR"))


U_WAVELENGTH = _conv_unit("neutron_wavelength", lambda st, it, x, r: (
    st.oblige("post.E * lambda^2 == ENERGY_FACTOR", z3.And(r > 0, x * r * r == _ef(st, it)))))
U_ENERGY = _conv_unit("neutron_energy", lambda st, it, x, r: (
    st.oblige("post.E * lambda^2 == ENERGY_FACTOR", z3.And(r > 0, r * x * x == _ef(st, it)))))
U_WAVELENGTH_V = _conv_unit("neutron_wavelength_from_velocity", lambda st, it, x, r: (
    st.oblige("post.v * lambda == VELOCITY_FACTOR", z3.And(r > 0, r * x == _vf(st, it)))))


def _roundtrip_inputs(st, interp):
    e = st.fresh("energy", z3.RealSort())
    st.assume(e > 0)
    return [e], {}, {"e": e}


def _roundtrip_post(st, interp, C, res):
    if res.outcome == "raise":
        st.oblige("never-raises", False, kind="raises")
        return
    from pyvc import extract
    fn = VFunc(extract.extract(NSF + ".neutron_energy"), [], qualname=NSF + ".neutron_energy")
    e2 = interp.call_function(st, fn, [res.value], {})
    st.oblige("post.energy -> wavelength -> energy is the identity", R(e2) == C["e"])


U_ROUNDTRIP = Unit("neutron_energy(neutron_wavelength(E))", NSF + ".neutron_wavelength", _roundtrip_inputs,
                   _roundtrip_post, replay={"module": "c04", "task": "replay"})


def _anchor(fname, arg, want, tol):
    from fractions import Fraction

    def mk(st, interp):
        return [Fraction(arg)], {}, {}

    def post(st, interp, C, res):
        if res.outcome == "raise":
            st.oblige("never-raises", False, kind="raises")
            return
        r = R(res.value)
        st.oblige("anchor.|%s(%s) - %s| < %s" % (fname, arg, want, tol),
                  z3.And(r - z3.RealVal(want) < z3.RealVal(tol), z3.RealVal(want) - r < z3.RealVal(tol)))
    return Unit("anchor:%s(%s)" % (fname, arg), NSF + "." + fname, mk, post)


U_ANCHOR_E = _anchor("neutron_energy", "1.798", "25.3", "0.05")
U_ANCHOR_W = _anchor("neutron_wavelength", "25.3", "1.798", "0.0005")
U_ANCHOR_V = _anchor("neutron_wavelength_from_velocity", "2200", "1.798", "0.0005")


def lemma_count_scaling():
    """multiplying all counts by k > 0 multiplies the four sums by k (instances of
    SumOver.homogeneous) and therefore leaves N, b and sigma_s - hence every output - unchanged"""
    st = State()
    n, M, Bre, Bim, Sg, rho, k = z3.Reals("n M Bre Bim Sg rho k")
    NA = z3.RealVal(AVOGADRO)
    st.assume(z3.And(n > 0, M > 0, Sg > 0, rho > 0, k > 0))

    def N_of(n_, M_):
        return n_ / ((M_ / rho) / NA * z3.RealVal(10 ** 24))
    st.oblige("number-density-invariant", N_of(k * n, k * M) == N_of(n, M), kind="lemma", assume_after=False)
    st.oblige("b-invariant", z3.And((k * Bre) / (k * n) == Bre / n, (k * Bim) / (k * n) == Bim / n), kind="lemma", assume_after=False)
    st.oblige("sigma-invariant", (k * Sg) / (k * n) == Sg / n, kind="lemma", assume_after=False)
    return [st]


L_COUNT_SCALING = Lemma("count-scaling-invariance", lemma_count_scaling)


def lemma_density_scaling():
    """number density is proportional to density: N(k rho) == k N(rho)"""
    st = State()
    n, M, rho, k = z3.Reals("n M rho k")
    NA = z3.RealVal(AVOGADRO)
    st.assume(z3.And(n > 0, M > 0, rho > 0, k > 0))
    st.oblige("N(k rho) == k N(rho)",
              n / ((M / (k * rho)) / NA * z3.RealVal(10 ** 24)) == k * (n / ((M / rho) / NA * z3.RealVal(10 ** 24))), kind="lemma")
    return [st]


L_DENSITY_SCALING = Lemma("number-density-proportional-to-density", lemma_density_scaling)


# ------------------------------------------------------------------------------ composite calculator (C17)

def _sp_inputs(st, interp):
    use_state(st)
    A = fresh_atom_map(st, "atoms", positive=False)
    w = st.fresh("wavelength", z3.RealSort())
    st.assume(w > 0)
    Fm = VObj("AbstractFormula", {"__atoms__": A})
    return [w, Fm], {}, {"A": A, "w": w}


def _sp_post(st, interp, C, res):
    if res.outcome == "raise":
        st.oblige("never-raises", False, kind="raises", info={"exc": res.exc})
        return
    n, M, Bre, Bim, Sg = sums(st, C["A"], C["w"])
    v = res.value
    ok = isinstance(v, VTuple) and len(v.items) == 4
    st.oblige("post.shape", z3.BoolVal(ok))
    if ok:
        st.oblige("post.num_atoms == sum n_k", spec.eq_goal(interp, st, v.items[0], n))
        st.oblige("post.molar_mass == sum n_k m_k", spec.eq_goal(interp, st, v.items[1], M))
        st.oblige("post.b_c == sum n_k b_k(lambda)", spec.eq_goal(interp, st, v.items[2], Cx(Bre, Bim)))
        st.oblige("post.sigma_s == sum n_k sigma_k(lambda)", spec.eq_goal(interp, st, v.items[3], Sg))


_SP = NSF + "._sum_piece"
U_SUM_PIECE = Unit("_sum_piece", _SP, _sp_inputs, _sp_post,
                   contracts=dict(NEUTRON_REC, **{"AbstractFormula.atoms@get": c_atoms_of_abstract}),
                   loops={(_SP, 1): {"iter": "compound.atoms.items()", "define": _mk_defs(["num_atoms", "molar_mass", "b_c", "sigma_s"])}},
                   replay={"module": "c17", "task": "replay"})


def _COMPUTE_POST(st, interp, C, res):
    """the calculator applied to weights ws and density rho, given the per-material sums `parts`"""
    if res.outcome == "raise":
        st.oblige("never-raises", False, kind="raises", info={"exc": res.exc})
        return
    ws, parts, rho = C["ws"], C["parts"], C["rho"]
    n = sum(w * p[0] for w, p in zip(ws, parts))
    M = sum(w * p[1] for w, p in zip(ws, parts))
    Bre = sum(w * p[2] for w, p in zip(ws, parts))
    Bim = sum(w * p[3] for w, p in zip(ws, parts))
    Sg = sum(w * p[4] for w, p in zip(ws, parts))
    v = res.value
    ok = isinstance(v, VTuple) and len(v.items) == 3
    st.oblige("post.shape", z3.BoolVal(ok))
    if not ok:
        return
    zero = all(is_concrete_num(x) and x == 0 for x in v.items)
    if zero:
        st.oblige("post.zeros only for zero total weight or zero density", M * rho == 0)
        return
    st.oblige("post.values only when mass*density != 0", M * rho != 0)
    N = n / ((M / rho) / z3.RealVal(AVOGADRO) * z3.RealVal(10 ** 24))
    full = VTuple([v, VTuple([0, 0, 0]), 1])
    for name, g in spec_scattering_goals(N, z3.RealVal(1), Bre / n, Bim / n, Sg / n, full)[:3]:
        st.oblige("post.same as direct calculation on the weighted sums: " + name, g)


def _compute_unit(k):
    target = NSF + ".neutron_composite_sld::_compute"

    def closure(interp):
        return [C_env]
    C_env = {}

    def mk(st, interp):
        use_state(st)
        parts = []
        for j in range(k):
            parts.append(tuple(st.fresh("%s_%d" % (nm, j), z3.RealSort()) for nm in ("n", "M", "Bre", "Bim", "Sg")))
            st.assume(z3.And(parts[-1][0] > 0, parts[-1][1] > 0, parts[-1][4] > 0))
        ws = [st.fresh("w_%d" % j, z3.RealSort()) for j in range(k)]
        for wj in ws:
            st.assume(wj >= 0)
        rho = st.fresh("density", z3.RealSort())
        st.assume(rho >= 0)
        C_env.clear()
        C_env.update({
            "is_multi": st.fresh("is_multi", z3.BoolSort()),
            "num_atoms_parts": VArrN([p[0] for p in parts]),
            "molar_mass_parts": VArrN([p[1] for p in parts]),
            "bc_parts": VArrN([Cx(p[2], p[3]) for p in parts]),
            "sigma_parts": VArrN([p[4] for p in parts]),
        })
        return [VArrN(ws), rho], {}, {"parts": parts, "ws": ws, "rho": rho}

    post = _COMPUTE_POST
    return Unit("neutron_composite_sld._compute[%d materials]" % k, target, mk, post, closure=closure,
                replay={"module": "c17", "task": "replay"})


U_COMPUTE_1 = _compute_unit(1)
U_COMPUTE_2 = _compute_unit(2)
U_COMPUTE_3 = _compute_unit(3)


# ==============================================================================  C16: D2O contrast matching

SLD_RE = z3.Function("sld_of_re", z3.IntSort(), z3.RealSort())
SLD_IM = z3.Function("sld_of_im", z3.IntSort(), z3.RealSort())
SLD_INC = z3.Function("sld_of_inc", z3.IntSort(), z3.RealSort())


def sld_triple(tag):
    t = z3.IntVal(tag)
    return VTuple([SLD_RE(t), SLD_IM(t), SLD_INC(t)])


def c_d2o_slds(interp, st, args, kw):
    """_D2O_slds(compound, **kw) -> (H2O_sld, D2O_sld, Hsld, Dsld): four SLD triples (unit _D2O_slds)"""
    return VTuple([sld_triple(1), sld_triple(2), sld_triple(3), sld_triple(4)])


def _mix_inputs(st, interp):
    a = VTuple([st.fresh("a%d" % i, z3.RealSort()) for i in range(3)])
    b = VTuple([st.fresh("b%d" % i, z3.RealSort()) for i in range(3)])
    f = st.fresh("fraction", z3.RealSort())
    return [a, b, f], {}, {"a": a, "b": b, "f": f}


def _mix_post(st, interp, C, res):
    if res.outcome == "raise":
        st.oblige("never-raises", False, kind="raises")
        return
    v = res.value
    ok = isinstance(v, VTuple) and len(v.items) == 3
    st.oblige("post.shape", z3.BoolVal(ok))
    if ok:
        for j in range(3):
            st.oblige("post.component %d == a*fraction + b*(1-fraction)" % j,
                      R(v.items[j]) == C["a"].items[j] * C["f"] + C["b"].items[j] * (1 - C["f"]))


U_MIX_VALUES = Unit("mix_values", NSF + ".mix_values", _mix_inputs, _mix_post, replay={"module": "c16", "task": "replay"})


def _d2osld_inputs(st, interp):
    vf = st.fresh("volume_fraction", z3.RealSort())
    d = st.fresh("D2O_fraction", z3.RealSort())
    return [st.fresh("compound", z3.IntSort())], {"volume_fraction": vf, "D2O_fraction": d}, {"vf": vf, "d": d}


def _d2osld_post(st, interp, C, res):
    if res.outcome == "raise":
        st.oblige("never-raises", False, kind="raises")
        return
    v = res.value
    ok = isinstance(v, VTuple) and len(v.items) == 3
    st.oblige("post.shape", z3.BoolVal(ok))
    if not ok:
        return
    vf, d = C["vf"], C["d"]
    H2O, D2O, H, D = (sld_triple(i).items for i in (1, 2, 3, 4))
    for j, nm in enumerate(("real", "imaginary", "incoherent")):
        solute = d * D[j] + (1 - d) * H[j]
        solvent = d * D2O[j] + (1 - d) * H2O[j]
        st.oblige("post.%s == vf*(d*Dsld+(1-d)*Hsld) + (1-vf)*(d*D2O+(1-d)*H2O)" % nm,
                  R(v.items[j]) == vf * solute + (1 - vf) * solvent)
        st.oblige("post.%s at volume fraction 1 is the substituted compound's mix" % nm,
                  z3.Implies(vf == 1, R(v.items[j]) == solute))
        st.oblige("post.%s at volume fraction 0 is the H2O/D2O solvent mix" % nm,
                  z3.Implies(vf == 0, R(v.items[j]) == solvent))


U_D2O_SLD = Unit("D2O_sld", NSF + ".D2O_sld", _d2osld_inputs, _d2osld_post,
                 contracts={NSF + "._D2O_slds": c_d2o_slds}, inline={NSF + ".mix_values"},
                 replay={"module": "c16", "task": "replay"})


def _match_inputs(st, interp):
    H2O, D2O, H, D = (sld_triple(i).items for i in (1, 2, 3, 4))
    st.assume(D[0] - H[0] + H2O[0] - D2O[0] != 0)       # a match point exists
    return [st.fresh("compound", z3.IntSort())], {}, {}


def _match_post(st, interp, C, res):
    if res.outcome == "raise":
        st.oblige("never-raises-when-a-match-point-exists", False, kind="raises", info={"exc": res.exc})
        return
    v = res.value
    ok = isinstance(v, VTuple) and len(v.items) == 2
    st.oblige("post.shape", z3.BoolVal(ok))
    if not ok:
        return
    d, m = R(v.items[0]), R(v.items[1])
    H2O, D2O, H, D = (sld_triple(i).items for i in (1, 2, 3, 4))
    solute = d * D[0] + (1 - d) * H[0]
    solvent = d * D2O[0] + (1 - d) * H2O[0]
    st.oblige("post.at the match fraction solute and solvent real SLD coincide (solution SLD independent of volume fraction)",
              solute == solvent)
    vf = st.fresh("vf", z3.RealSort())
    vf2 = st.fresh("vf2", z3.RealSort())
    st.oblige("post.solution real SLD is the same for every volume fraction",
              vf * solute + (1 - vf) * solvent == vf2 * solute + (1 - vf2) * solvent)
    st.oblige("post.reported match SLD is that common value", m == solute)


U_D2O_MATCH = Unit("D2O_match", NSF + ".D2O_match", _match_inputs, _match_post,
                   contracts={NSF + "._D2O_slds": c_d2o_slds}, inline={NSF + ".mix_values"},
                   replay={"module": "c16", "task": "replay"})


def lemma_substitution_linear():
    """Replacing a portion d of the labile hydrogens by D and the rest by natural H at fixed cell
    volume gives real SLD d*sld(D form) + (1-d)*sld(H form).  With rho_re = 10 N Re(b),
    N b = (rho N_A / (M 1e24)) * sum n_k b_k, and rho/M invariant under substitution
    (_isotope_substitution: rho' M == rho M'), the SLD is linear in the counts."""
    st = State()
    c, S0, nL, bH, bD, d = z3.Reals("c S0 nL bH bD d")     # c = 10 rho N_A/(M 1e24), S0 = sum over the other atoms
    def sld(frac):
        return c * (S0 + nL * (frac * bD + (1 - frac) * bH))
    st.oblige("real-sld-linear-in-d", sld(d) == d * sld(1) + (1 - d) * sld(0), kind="lemma", assume_after=False)
    # imaginary part: |.| is linear when every Im b has the same sign (closed data fact, checked natively)
    iH, iD, I0 = z3.Reals("iH iD I0")
    st.assume(z3.And(iH <= 0, iD <= 0, I0 <= 0, nL >= 0, d >= 0, d <= 1, c >= 0))
    def ab(x):
        return z3.If(x >= 0, x, -x)
    def sldi(frac):
        return c * ab(I0 + nL * (frac * iD + (1 - frac) * iH))
    st.oblige("imaginary-sld-linear-in-d-for-d-in-[0,1]", sldi(d) == d * sldi(1) + (1 - d) * sldi(0), kind="lemma", assume_after=False)
    # cell volume kept:  rho' M == rho M'  =>  rho'/M' == rho/M
    rho, M, rho2, M2 = z3.Reals("rho M rho2 M2")
    st.assume(z3.And(M > 0, M2 > 0, rho > 0, rho2 * M == rho * M2))
    st.oblige("cell-volume-kept", rho2 / M2 == rho / M, kind="lemma", assume_after=False)
    return [st]


L_SUBSTITUTION_LINEAR = Lemma("D2O.substitution-is-linear-mixing", lemma_substitution_linear)


# fasta.Molecule.D2Osld and fasta.D2Omatch against nsf.D2O_sld / D2O_match
FASTA = "periodictable.fasta"


_H2O_SLD, _D2O_SLD = z3.Real("fasta.H2O_SLD"), z3.Real("fasta.D2O_SLD")


def _fmatch_inputs(st, interp):
    h, dd = st.fresh("Hsld", z3.RealSort()), st.fresh("Dsld", z3.RealSort())
    h2o, d2o = _H2O_SLD, _D2O_SLD
    st.assume(dd - h + h2o - d2o != 0)
    return [h, dd], {}, {"h": h, "d": dd, "h2o": h2o, "d2o": d2o}


def _fmatch_post(st, interp, C, res):
    if res.outcome == "raise":
        st.oblige("never-raises-when-a-match-point-exists", False, kind="raises")
        return
    frac = (C["h2o"] - C["h"]) / (C["d"] - C["h"] + C["h2o"] - C["d2o"])
    st.oblige("post.fasta.D2Omatch == 100 * (the fraction nsf.D2O_match computes from the same four SLDs)",
              R(res.value) == 100 * frac)


def _fasta_env(st_names):
    return {}


U_FASTA_MATCH = Unit("fasta.D2Omatch", FASTA + ".D2Omatch", _fmatch_inputs, _fmatch_post,
                     env={(FASTA, "H2O_SLD"): _H2O_SLD, (FASTA, "D2O_SLD"): _D2O_SLD},
                     replay={"module": "c16", "task": "replay"})


def _fsld_inputs(st, interp):
    sld, dsld = st.fresh("sld", z3.RealSort()), st.fresh("Dsld", z3.RealSort())
    self = VObj((FASTA, "Molecule"), {"sld": sld, "Dsld": dsld})
    vf, d = st.fresh("volume_fraction", z3.RealSort()), st.fresh("D2O_fraction", z3.RealSort())
    return [self], {"volume_fraction": vf, "D2O_fraction": d}, {"sld": sld, "dsld": dsld, "vf": vf, "d": d}


def _fsld_post(st, interp, C, res):
    if res.outcome == "raise":
        st.oblige("never-raises", False, kind="raises")
        return
    vf, d = C["vf"], C["d"]
    want = vf * (d * C["dsld"] + (1 - d) * C["sld"]) + (1 - vf) * (d * _D2O_SLD + (1 - d) * _H2O_SLD)
    st.oblige("post.Molecule.D2Osld is the same mix as the real part of nsf.D2O_sld", R(res.value) == want)


U_FASTA_D2OSLD = Unit("fasta.Molecule.D2Osld", FASTA + ".Molecule.D2Osld", _fsld_inputs, _fsld_post,
                      env={(FASTA, "H2O_SLD"): _H2O_SLD, (FASTA, "D2O_SLD"): _D2O_SLD},
                      replay={"module": "c16", "task": "replay"})


# ------------------------------------------------------------------------------ _D2O_slds: which four SLDs are computed

def _dsl_inputs(with_table):
    def mk(st, interp):
        use_state(st)
        pub = VObj("Table", {"H": VObj("HEl", {"id": "pub.H"}), "D": VObj("Atom", {"id": "pub.D"})})
        priv = VObj("Table", {"H": VObj("HEl", {"id": "priv.H"}), "D": VObj("Atom", {"id": "priv.D"})})
        for t, nm in ((pub, "pub"), (priv, "priv")):
            t.attrs["H"].attrs["iso1"] = VObj("Atom", {"id": nm + ".H[1]"})
        interp.env_overrides[("periodictable.core", "PUBLIC_TABLE")] = pub
        kw = {"wavelength": st.fresh("wavelength", z3.RealSort())}
        if with_table:
            kw["table"] = priv
        kw["density"] = st.fresh("density", z3.RealSort())
        comp = VObj("Compound", {})
        return [comp], kw, {"comp": comp, "kw": kw, "T": priv if with_table else pub, "with_table": with_table}
    return mk


def c_h_getitem(interp, st, args, kw):
    return args[0].attrs["iso1"]


def c_formula_rec(interp, st, args, kw):
    return VObj("Mol", {"of": args[0], "kw": dict(kw)})


def c_mol_replace(interp, st, args, kw):
    return VObj("Replaced", {"mol": args[0], "source": args[1], "target": args[2], "portion": kw.get("portion", args[3] if len(args) > 3 else 1)})


def c_neutron_sld_rec(interp, st, args, kw):
    return VObj("SLD", {"of": args[0], "kw": dict(kw)})


def _dsl_post(st, interp, C, res):
    if res.outcome == "raise":
        st.oblige("never-raises", False, kind="raises", info={"exc": res.exc})
        return
    v = res.value
    ok = isinstance(v, VTuple) and len(v.items) == 4 and all(isinstance(x, VObj) and x.cls == "SLD" for x in v.items)
    st.oblige("post.returns four SLDs", z3.BoolVal(ok))
    if not ok:
        return
    h2o, d2o, hs, ds = v.items
    T_ = C["T"]
    st.oblige("post.solvent SLDs are those of H2O and D2O at natural density 0.9982 (water at 20 C)",
              z3.BoolVal(h2o.attrs["of"] == "H2O@0.9982n" and d2o.attrs["of"] == "D2O@0.9982n"))
    for nm, x, tgt in (("H", hs, T_.attrs["H"]), ("D", ds, T_.attrs["D"])):
        rp = x.attrs["of"]
        good = isinstance(rp, VObj) and rp.cls == "Replaced" and rp.attrs["source"] is T_.attrs["H"].attrs["iso1"] \
            and rp.attrs["target"] is tgt and rp.attrs["portion"] == 1
        st.oblige("post.%s-form SLD is that of the compound with H[1] fully replaced by %s, atoms taken from the table in use" % (nm, nm),
                  z3.BoolVal(bool(good)))
        mol = rp.attrs["mol"] if isinstance(rp, VObj) and rp.cls == "Replaced" else None
        st.oblige("post.%s-form: the compound is built by formula(compound, <the caller's keywords incl. density and table>)" % nm,
                  z3.BoolVal(isinstance(mol, VObj) and mol.cls == "Mol" and mol.attrs["of"] is C["comp"]
                             and mol.attrs["kw"].get("density") is C["kw"]["density"]
                             and (mol.attrs["kw"].get("table") is C["kw"].get("table"))))
    for x in v.items:
        st.oblige("post.all four SLDs use the same wavelength/energy/table arguments",
                  z3.BoolVal(x.attrs["kw"].get("wavelength") is C["kw"]["wavelength"] and x.attrs["kw"].get("energy") is None
                             and x.attrs["kw"].get("table") is C["kw"].get("table")))


U_D2O_SLDS = [Unit("_D2O_slds[%s]" % ("table=T" if t else "default table"), NSF + "._D2O_slds", _dsl_inputs(t), _dsl_post,
                   contracts={NSF + ".neutron_sld": c_neutron_sld_rec, FORMULAS + ".formula": c_formula_rec,
                              "Mol.replace": c_mol_replace, "HEl.__getitem__": c_h_getitem},
                   inline={"periodictable.core.default_table"}, replay={"module": "c16", "task": "replay"}) for t in (False, True)]


# ------------------------------------------------------------------------------ neutron_composite_sld (outer function + the closure it returns, end to end)

def c_sum_piece_sym(interp, st, args, kw):
    """_sum_piece(wavelength, material) -> (num_atoms, molar_mass, b_c, sigma_s) of that material (unit _sum_piece): here the
    j-th call returns the j-th tuple of symbolic sums prepared by the unit"""
    calls = st.ghost.setdefault("sum_piece_calls", [])
    j = len(calls)
    calls.append(list(args))
    p = st.ghost["pieces"][j]
    return VTuple([p[0], p[1], Cx(p[2], p[3]), p[4]])


def _outer_inputs(k, vector):
    def mk(st, interp):
        use_state(st)
        st.ghost["is_vector"] = z3.BoolVal(vector)
        mats = [VObj("Material", {"j": j}) for j in range(k)]
        lam = st.fresh("wavelength", z3.RealSort())
        st.assume(lam > 0)
        parts = []
        for j in range(k):
            parts.append(tuple(st.fresh("%s_%d" % (nm, j), z3.RealSort()) for nm in ("n", "M", "Bre", "Bim", "Sg")))
            st.assume(z3.And(parts[-1][0] > 0, parts[-1][1] > 0, parts[-1][4] > 0))
        st.ghost["pieces"] = parts
        ws = [st.fresh("w_%d" % j, z3.RealSort()) for j in range(k)]
        for wj in ws:
            st.assume(wj >= 0)
        rho = st.fresh("density", z3.RealSort())
        st.assume(rho >= 0)
        return [VList(list(mats))], {"wavelength": lam}, {"mats": mats, "lam": lam, "vector": vector, "k": k, "parts": parts, "ws": ws, "rho": rho}
    return mk


class _Res:
    pass


def _outer_post(st, interp, C, res):
    if res.outcome == "raise":
        st.oblige("never-raises", False, kind="raises", info={"exc": res.exc})
        return
    f = res.value
    ok = isinstance(f, VFunc)
    st.oblige("post.returns a calculator (a function of weights and density)", z3.BoolVal(ok))
    if not ok:
        return
    calls = st.ghost.get("sum_piece_calls", [])
    good = len(calls) == C["k"] and all(len(c) == 2 for c in calls)
    st.oblige("post._sum_piece is evaluated once per material, in order, at the caller's wavelength",
              z3.BoolVal(False) if not good else z3.And([z3.BoolVal(c[1] is C["mats"][j]) for j, c in enumerate(calls)]
                                                        + [spec.eq_goal(interp, st, c[0], C["lam"]) for c in calls]))
    if not good:
        return
    # the returned closure is applied to arbitrary weights and density: whatever the names of the variables it closes over,
    # the result must be the documented calculation on the weighted sums of the pieces
    r = _Res()
    try:
        r.value = interp.call(st, f, [VArrN(list(C["ws"])), C["rho"]], {})
        r.outcome = "return"
    except PyRaise as e:
        r.outcome, r.exc = "raise", e.exc
    _COMPUTE_POST(st, interp, C, r)


def _outer_unit(k, vector):
    return Unit("neutron_composite_sld[%d materials, %s wavelength]" % (k, "vector" if vector else "scalar"), NSF + ".neutron_composite_sld",
                _outer_inputs(k, vector), _outer_post, contracts={NSF + "._sum_piece": c_sum_piece_sym},
                replay={"module": "c17", "task": "replay"})


U_COMPOSITE_OUTER = [_outer_unit(k, v) for k in (1, 3) for v in (False, True)]
