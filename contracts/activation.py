"""Sidecar contracts for periodictable/activation.py (C14, C15).

Closed forms (exact solutions of the documented chains, over the reals; rates per hour):
  single capture with burn-up:  A0 = root * L/(L - k1 + k2) * (e^{-k1 t} - e^{-(k2+L) t})
  'b'  (fed by a decaying activated parent):  A0 = root * (1 - (Lp e^{-L t} - L e^{-Lp t})/(Lp - L))
  '2n' (two-step capture):  A0 = root * L * k2 * sum_i e^{-r_i t} / prod_{j != i} (r_j - r_i),  r = (k1, k2+Lp, L)
  rest:  A(T) = A0 * e^{-L T}   (L = ln 2 / T_half)
with root = flux * sigma1 * 1e-24 * mass / A * 1.6278e19, flux = fluence/fast_ratio for fast rows.
"""
import z3

from pyvc import spec, shims, theories as T
from pyvc.contract import Unit, Lemma
from pyvc.state import State
from pyvc.values import *   # noqa
from pyvc.values import VObj, VOpt, VSym, VTuple, VList, VDict, Cx, Unsupported, VFunc
from .common import ATOMS, use_state

ACT = "periodictable.activation"


def R(x):
    return to_real(x)


def E(interp, st, x):
    return R(shims.exp_value(interp, st, x))


def _inputs(reaction):
    def mk(st, interp):
        use_state(st)
        iso = ATOMS.new(st, "isotope")
        st.assume(z3.And(T.KIND(iso.expr) == 1, T.ISO(iso.expr) > 0))
        names = ["thermalXS", "resonance", "Thalf_hrs", "Thalf_parent", "thermalXS_parent", "resonance_parent"]
        f = {n: st.fresh(n, z3.RealSort()) for n in names}
        st.assume(z3.And(f["thermalXS"] >= 0, f["resonance"] >= 0, f["Thalf_hrs"] > 0, f["Thalf_parent"] > 0,
                         f["thermalXS_parent"] >= 0, f["resonance_parent"] >= 0))
        fast = st.fresh("fast", z3.BoolSort())
        ai = VObj("ActRec", dict(f, reaction=reaction, fast=fast, daughter="X"))
        st.ghost["atom_attr"] = lambda interp_, st_, v, name, node: VList([ai]) if name == "neutron_activation" else NotImplemented
        fl, cd, fr = (st.fresh(n, z3.RealSort()) for n in ("fluence", "Cd_ratio", "fast_ratio"))
        st.assume(z3.And(fl > 0, cd >= 0, fr >= 0))
        env = VObj((ACT, "ActivationEnvironment"), {"fluence": fl, "Cd_ratio": cd, "fast_ratio": fr})
        mass, t = st.fresh("mass", z3.RealSort()), st.fresh("exposure", z3.RealSort())
        st.assume(z3.And(mass > 0, t > 0))
        rests = [st.fresh("rest%d" % i, z3.RealSort()) for i in range(2)]
        for r in rests:
            st.assume(r >= 0)
        C = dict(f, fast=fast, fl=fl, cd=cd, fr=fr, mass=mass, t=t, rests=rests, ai=ai, A=T.ISO(iso.expr), reaction=reaction)
        return [iso, mass, env, t, VTuple(rests)], {}, C
    return mk


def _post(st, interp, C, res):
    if res.outcome == "raise":
        st.oblige("never fails to compute for physical inputs (only RuntimeError is ever raised, and only for a negative activity)",
                  False, kind="raises", info={"exc": res.exc, "line": res.lineno})
        return
    r = res.value
    ok = isinstance(r, VDict)
    st.oblige("post.returns a dict of products", z3.BoolVal(ok))
    if not ok:
        return
    fast, fr = C["fast"], C["fr"]
    omitted = z3.And(fast, fr == 0)
    if not r.entries:
        st.oblige("post.a product is omitted exactly for a fast reaction with fast ratio 0", omitted)
        return
    st.oblige("post.product present unless fast reaction with fast ratio 0", z3.Not(omitted))
    st.oblige("post.one entry keyed by the reaction record", z3.BoolVal(len(r.entries) == 1 and r.entries[0][0] is C["ai"]))
    vals = r.entries[0][1]
    ok = isinstance(vals, VList) and len(vals.items) == len(C["rests"])
    st.oblige("post.one activity per rest time", z3.BoolVal(ok))
    if not ok:
        return
    ln2 = R(interp.lookup_global(st, ACT, "LN2"))
    lam = ln2 / C["Thalf_hrs"]
    eps = z3.If(C["cd"] >= 1, 1 / C["cd"], z3.RealVal(0))
    s1 = C["thermalXS"] + eps * C["resonance"]
    flux = z3.If(fast, C["fl"] / fr, C["fl"])
    root = flux * s1 * z3.RealVal("1e-24") * C["mass"] / z3.ToReal(C["A"]) * z3.RealVal("1.6278e19")
    t = C["t"]
    if C["reaction"] == "b":
        lp = ln2 / C["Thalf_parent"]
        a0 = root * (1 - (lp * E(interp, st, -lam * t) - lam * E(interp, st, -lp * t)) / (lp - lam))
    elif C["reaction"] == "2n":
        lp = ln2 / C["Thalf_parent"]
        s2 = C["thermalXS_parent"] + eps * C["resonance_parent"]
        r1 = flux * s1 * z3.RealVal("1e-24") * 3600
        r2 = C["fl"] * z3.RealVal("1e-24") * 3600 * s2 + lp
        r3 = lam
        a0 = root * lam * (r2 - lp) * (E(interp, st, -r1 * t) / ((r2 - r1) * (r3 - r1))
                                      + E(interp, st, -r2 * t) / ((r1 - r2) * (r3 - r2))
                                      + E(interp, st, -r3 * t) / ((r1 - r3) * (r2 - r3)))
    else:
        s2 = C["thermalXS_parent"] + eps * C["resonance_parent"]
        k1 = flux * s1 * 3600 * z3.RealVal("1e-24")
        k2 = C["fl"] * s2 * 3600 * z3.RealVal("1e-24")
        U, V = k1 * t, (k2 + lam) * t
        eU, eV = E(interp, st, -U), E(interp, st, -V)
        # functional equation of exp, instantiated on the terms the code uses
        st.assume(eU * E(interp, st, U - V) == eV)
        st.assume(eV * E(interp, st, V - U) == eU)
        a0 = root * lam / (lam - k1 + k2) * (eU - eV)
        st.oblige("sign.activity at removal is never negative", a0 >= 0)
    st.oblige("post.activity at removal equals the exact chain solution [%s]" % C["reaction"],
              R(vals.items[0]) == a0 * E(interp, st, -lam * C["rests"][0]))
    for i, Ti in enumerate(C["rests"]):
        st.oblige("post.rest time %d: activity falls by exp(-ln2 T/T_half) = 2^(-T/T_half)" % i,
                  R(vals.items[i]) == a0 * E(interp, st, -lam * Ti))
    # proportional to mass: every factor but `mass` is independent of it (root is linear in mass)
    st.oblige("post.epithermal capture contributes exactly when the cadmium ratio is at least 1",
              z3.Implies(C["cd"] < 1, s1 == C["thermalXS"]))


def _unit(reaction):
    return Unit("activity[%s]" % reaction, ACT + ".activity", _inputs(reaction), _post,
                inline={ACT + ".ActivationEnvironment.epithermal_reduction_factor"},
                options={"div_zero": "assume"}, replay={"module": "c14", "task": "replay"})


U_ACTIVITY = [_unit("act"), _unit("b"), _unit("2n"), _unit("n,p")]


# ------------------------------------------------------------------------------ epithermal factor

def _erf_inputs(st, interp):
    cd = st.fresh("Cd_ratio", z3.RealSort())
    st.assume(cd >= 0)
    return [VObj((ACT, "ActivationEnvironment"), {"Cd_ratio": cd})], {}, {"cd": cd}


def _erf_post(st, interp, C, res):
    if res.outcome == "raise":
        st.oblige("never-raises", False, kind="raises")
        return
    st.oblige("post.1/Cd_ratio for Cd_ratio >= 1, else 0",
              R(res.value) == z3.If(C["cd"] >= 1, 1 / C["cd"], z3.RealVal(0)))


U_EPITHERMAL = Unit("ActivationEnvironment.epithermal_reduction_factor", ACT + ".ActivationEnvironment.epithermal_reduction_factor",
                    _erf_inputs, _erf_post)


# ------------------------------------------------------------------------------ Sample._accumulate

def _acc_inputs(st, interp):
    use_state(st)
    p_old, p_new = VObj("ActRec", {"id": "seen"}), VObj("ActRec", {"id": "new"})
    old = [st.fresh("old%d" % i, z3.RealSort()) for i in range(2)]
    a1 = [st.fresh("add_seen%d" % i, z3.RealSort()) for i in range(2)]
    a2 = [st.fresh("add_new%d" % i, z3.RealSort()) for i in range(2)]
    self = VObj((ACT, "Sample"), {"activity": VDict([[p_old, VList(list(old))]]), "rest_times": VTuple([0, 1])})
    arg = VDict([[p_old, VList(list(a1))], [p_new, VList(list(a2))]])
    return [self, arg], {}, dict(self=self, p_old=p_old, p_new=p_new, old=old, a1=a1, a2=a2, arg=arg)


def _acc_post(st, interp, C, res):
    if res.outcome == "raise":
        st.oblige("never-raises", False, kind="raises", info={"exc": res.exc})
        return
    act = C["self"].attrs["activity"]
    ok = isinstance(act, VDict) and len(act.entries) == 2
    st.oblige("post.one entry per product", z3.BoolVal(ok))
    if not ok:
        return
    d = {id(k): v for k, v in act.entries}
    seen, new = d.get(id(C["p_old"])), d.get(id(C["p_new"]))
    ok = isinstance(seen, VList) and isinstance(new, VList) and len(seen.items) == 2 and len(new.items) == 2
    st.oblige("post.one activity per rest time", z3.BoolVal(ok))
    if ok:
        for i in range(2):
            st.oblige("post.a product already present ADDS the new contribution (rest time %d)" % i,
                      R(seen.items[i]) == C["old"][i] + C["a1"][i])
            st.oblige("post.a new product starts from zero (rest time %d)" % i, R(new.items[i]) == C["a2"][i])
    st.oblige("frame.argument unchanged", z3.BoolVal(len(C["arg"].entries) == 2), kind="frame")


U_ACCUMULATE = Unit("Sample._accumulate", ACT + ".Sample._accumulate", _acc_inputs, _acc_post,
                    replay={"module": "c14", "task": "replay"})


# ------------------------------------------------------------------------------ Sample.calculate_activation

ACTIVITY_OF = z3.Function("activity_of", T.Atom, z3.RealSort(), z3.IntSort(), z3.RealSort())   # (isotope, mass, rest index)


def _ca_inputs(st, interp):
    """a formula with two atoms: a natural element with two isotopes, and an explicitly named isotope
    of that same element - both contribute to the same product"""
    from . import core as KC
    use_state(st)
    el = ATOMS.new(st, "element")
    iso1, iso2 = KC.ISOTOPE_OF(el.expr, z3.IntVal(1)), KC.ISOTOPE_OF(el.expr, z3.IntVal(2))
    st.assume(z3.And(T.KIND(el.expr) == 0, T.KIND(iso1) == 1, T.KIND(iso2) == 1, iso1 != iso2,
                     T.BASE(iso1) == el.expr, T.BASE(iso2) == el.expr))
    st.ghost["atom_getitem"] = lambda interp_, st_, v, idx, node: ATOMS.sym(st_, KC.ISOTOPE_OF(v.expr, to_z3num(idx)))
    st.ghost["atom_attr"] = lambda interp_, st_, v, name, node: VList([1, 2]) if name == "isotopes" else NotImplemented
    f_el, f_iso = st.fresh("fraction_element", z3.RealSort()), st.fresh("fraction_isotope", z3.RealSort())
    st.assume(z3.And(f_el > 0, f_iso > 0))
    mass = st.fresh("mass", z3.RealSort())
    st.assume(mass > 0)
    order = st.ghost.get("order", 0)
    ents = [[el, f_el], [ATOMS.sym(st, iso1), f_iso]]
    formula = VObj("FormulaStub", {"mass_fraction": VDict(ents)})
    # the sample has been used before: results of an earlier calculation must not leak into this one
    stale = VDict([[VObj("ActRec", {"id": "product of an earlier calculation"}), VList([st.fresh("stale0", z3.RealSort()), st.fresh("stale1", z3.RealSort())])]])
    self = VObj((ACT, "Sample"), {"formula": formula, "mass": mass, "activity": stale, "environment": VObj("Env", {"id": "earlier"}),
                                  "exposure": st.fresh("earlier_exposure", z3.RealSort()), "rest_times": VTuple([7])})
    ab1, ab2 = st.fresh("abundance1", z3.RealSort()), st.fresh("abundance2", z3.RealSort())
    st.assume(z3.And(ab1 > 0, ab2 > 0))
    C = dict(self=self, el=el.expr, iso1=iso1, iso2=iso2, f_el=f_el, f_iso=f_iso, mass=mass, ab1=ab1, ab2=ab2)
    from pyvc.values import VBuiltin

    def abundance(interp_, st_, args, kw):
        a = args[0].expr
        return z3.If(a == iso1, ab1, ab2)
    env = VObj("Env", {})
    C["env"], C["exposure"], C["rest_times"] = env, st.fresh("exposure", z3.RealSort()), VTuple([0, 1])
    return [self, env], {"exposure": C["exposure"], "rest_times": C["rest_times"],
                         "abundance": VBuiltin("abundance", abundance)}, C


PRODUCT = VObj("ActRec", {"id": "product"})


def c_activity(interp, st, args, kw):
    """activity(isotope, mass, env, exposure, rest_times) -> {product: [A(T_i)]} (units activity[...]); here every
    isotope yields the same single product so that contributions must add"""
    iso, m = args[0].expr, R(interp.resolve(st, args[1]))
    # which environment / exposure / rest times each per-isotope calculation was given (signature order; None = left to a default)
    names = ("isotope", "mass", "env", "exposure", "rest_times")
    given = dict(zip(names, args))
    given.update(kw)
    st.ghost.setdefault("activity_calls", []).append({k: given.get(k) for k in ("env", "exposure", "rest_times")})
    return VDict([[PRODUCT, VList([ACTIVITY_OF(iso, m, z3.IntVal(i)) for i in range(2)])]])


def _ca_post(st, interp, C, res):
    if res.outcome == "raise":
        st.oblige("never-raises", False, kind="raises", info={"exc": res.exc})
        return
    a = C["self"].attrs
    # decay_time and the table printer read these back: the calculation must record what it was asked for
    st.oblige("post.the sample records the environment, exposure and rest times of this calculation",
              z3.BoolVal(a.get("environment") is C["env"] and a.get("exposure") is C["exposure"] and a.get("rest_times") is C["rest_times"]))
    calls = st.ghost.get("activity_calls", [])
    st.oblige("post.every per-isotope calculation is given the environment, exposure and rest times of this calculation",
              z3.BoolVal(len(calls) > 0 and all(c["env"] is C["env"] and c["exposure"] is C["exposure"] and c["rest_times"] is C["rest_times"]
                                                for c in calls)))
    act = C["self"].attrs["activity"]
    ok = isinstance(act, VDict) and len(act.entries) == 1 and act.entries[0][0] is PRODUCT
    st.oblige("post.one accumulated entry for the common product", z3.BoolVal(ok))
    if not ok:
        return
    vals = act.entries[0][1]
    m = C["mass"]
    for i in range(2):
        want = (ACTIVITY_OF(C["iso1"], m * C["f_el"] * C["ab1"] * z3.RealVal("0.01"), z3.IntVal(i))
                + ACTIVITY_OF(C["iso2"], m * C["f_el"] * C["ab2"] * z3.RealVal("0.01"), z3.IntVal(i))
                + ACTIVITY_OF(C["iso1"], m * C["f_iso"], z3.IntVal(i)))
        st.oblige("post.natural element contributes the abundance-weighted sum of its isotopes and an explicitly named "
                  "isotope adds to it (rest time %d)" % i, R(vals.items[i]) == want)


U_CALC_ACTIVATION = Unit("Sample.calculate_activation", ACT + ".Sample.calculate_activation", _ca_inputs, _ca_post,
                         writes={"activity", "environment", "exposure", "rest_times"},
                         contracts={ACT + ".activity": c_activity},
                         inline={ACT + ".Sample._accumulate", "periodictable.core.isisotope", "periodictable.core.ision"},
                         replay={"module": "c14", "task": "replay"})


# ==============================================================================  C15: find_root, decay_time

F_UF = z3.Function("f_of", z3.RealSort(), z3.RealSort())
DF_UF = z3.Function("df_of", z3.RealSort(), z3.RealSort())


def _fr_inputs(st, interp):
    from pyvc.values import VBuiltin
    x0 = st.fresh("x0", z3.RealSort())
    f = VBuiltin("f", lambda i, s, a, k: F_UF(R(i.resolve(s, a[0]))))
    df = VBuiltin("df", lambda i, s, a, k: DF_UF(R(i.resolve(s, a[0]))))
    return [x0, f, df], {"max": 3}, {"x0": x0}


def _fr_post(st, interp, C, res):
    if res.outcome == "raise":
        st.oblige("raises only ZeroDivisionError, when the derivative vanishes at an iterate",
                  z3.BoolVal(res.exc == "ZeroDivisionError"), kind="raises", info={"exc": res.exc})
        return
    v = res.value
    ok = isinstance(v, VTuple) and len(v.items) == 2
    st.oblige("post.returns (x, fx)", z3.BoolVal(ok))
    if ok:
        st.oblige("post.fx == f(x) for the returned x", R(v.items[1]) == F_UF(R(v.items[0])))


U_FIND_ROOT = Unit("find_root[3 iterations]", ACT + ".find_root", _fr_inputs, _fr_post, options={"div_zero": "branch"},
                   replay={"module": "c15", "task": "replay"})


def c_find_root(interp, st, args, kw):
    """find_root(x0, f, df) -> (x, f(x)) for some x, or ZeroDivisionError (unit find_root); the iterate is
    arbitrary: convergence is not claimed"""
    x = st.fresh("root_x", z3.RealSort())
    st.ghost["root_x"] = x
    # the division by df(x) fails exactly when the caller's derivative can vanish at an iterate: the caller's df is
    # evaluated at an arbitrary iterate and the ZeroDivisionError path exists only if df(x) == 0 is satisfiable
    xi = st.fresh("root_iterate", z3.RealSort())
    d = R(interp.resolve(st, interp.call(st, args[2], [xi], {})))
    if st.branch(d == 0):
        from pyvc.values import PyRaise
        raise PyRaise("ZeroDivisionError", "float division by zero")
    fx = interp.call(st, args[1], [x], {})
    return VTuple([x, fx])


def _dt_inputs(nrest):
    def mk(st, interp):
        use_state(st)
        rests = [st.fresh("rest%d" % i, z3.RealSort()) for i in range(nrest)]
        for r in rests:
            st.assume(r >= 0)
        prods = []
        ents = []
        for j in range(2):
            th = st.fresh("Thalf%d" % j, z3.RealSort())
            st.assume(th > 0)
            acts = [st.fresh("A%d_at_rest%d" % (j, i), z3.RealSort()) for i in range(nrest)]
            for a in acts:
                st.assume(a >= 0)       # a product may have no activity at all (C14: never negative)
            p = VObj("ActRec", {"Thalf_hrs": th})
            prods.append((th, acts))
            ents.append([p, VList(list(acts))])
        target = st.fresh("target", z3.RealSort())
        st.assume(target > 0)
        self = VObj((ACT, "Sample"), {"rest_times": VTuple(list(rests)), "activity": VDict(ents)})
        return [self, target], {}, {"rests": rests, "prods": prods, "target": target, "self": self}
    return mk


def _dt_post(st, interp, C, res):
    rests, prods, target = C["rests"], C["prods"], C["target"]
    ln2 = R(interp.lookup_global(st, ACT, "LN2"))
    # reference: the smallest rest time (first one among equals) and the activities recorded there
    def total_at(t, k):
        To = rests[k]
        return z3.Sum([acts[k] * E(interp, st, -(ln2 / th) * (t - To)) for th, acts in prods])
    if res.outcome == "raise":
        st.oblige("post.only RuntimeError (accuracy not reached) may escape",
                  z3.BoolVal(res.exc == "RuntimeError"), kind="raises", info={"exc": res.exc, "line": res.lineno})
        return
    v = res.value
    # which index is the reference on this path?  the one whose rest time is <= all others
    cands = []
    for k in range(len(rests)):
        cands.append(z3.And([rests[k] <= r for r in rests]))
    t = R(v)
    st.oblige("post.t >= 0", t >= 0)
    A0 = lambda k: total_at(z3.RealVal(0), k)
    if is_concrete_num(v) and v == 0 and "root_x" not in st.ghost:
        st.oblige("post.returns 0 without solving only when the activity at removal is already at or below the target",
                  z3.Or([z3.And(c, A0(k) <= target) for k, c in enumerate(cands)]))
        return
    st.oblige("post.solves only when the activity at removal is above the target",
              z3.Or([z3.And(c, A0(k) > target) for k, c in enumerate(cands)]))
    st.oblige("post.returned time has total activity within 0.1% of the target",
              z3.Or([z3.And(c, total_at(t, k) - target <= z3.RealVal("0.001") * target,
                            target - total_at(t, k) <= z3.RealVal("0.001") * target) for k, c in enumerate(cands)]))


U_DECAY_TIME = [Unit("Sample.decay_time[%d rest times]" % n, ACT + ".Sample.decay_time", _dt_inputs(n), _dt_post,
                     contracts={ACT + ".find_root": c_find_root}, options={"div_zero": "branch"},
                     replay={"module": "c15", "task": "replay"}) for n in (1, 2)]


def _dt_empty_inputs(st, interp):
    self = VObj((ACT, "Sample"), {"rest_times": VTuple([]), "activity": VDict([])})
    return [self, st.fresh("target", z3.RealSort())], {}, {}


def _dt_empty_post(st, interp, C, res):
    st.oblige("post.nothing activated: decay time 0", z3.BoolVal(res.outcome == "return" and res.value == 0))


U_DECAY_TIME_EMPTY = Unit("Sample.decay_time[nothing activated]", ACT + ".Sample.decay_time", _dt_empty_inputs, _dt_empty_post)


def lemma_df_is_derivative():
    """df(t) == d/dt f(t) for the closures of decay_time (back end: sympy).  The two lambda bodies are
    read from the AST of the working tree and evaluated on symbolic data [(I1,L1),(I2,L2),(I3,L3)]."""
    import ast
    import sympy
    from pyvc import extract
    ext = extract.extract(ACT + ".Sample.decay_time")
    lambdas = {}
    for node in ast.walk(ext.node):
        if isinstance(node, ast.Assign) and len(node.targets) == 1 and isinstance(node.targets[0], ast.Name) \
                and isinstance(node.value, ast.Lambda) and node.targets[0].id in ("f", "df"):
            lambdas[node.targets[0].id] = node.value
    st = State()
    if set(lambdas) != {"f", "df"}:
        raise Unsupported("closures f/df not found in decay_time")
    t, To, target = sympy.symbols("t To target", real=True)
    data = [(sympy.Symbol("I%d" % i, positive=True), sympy.Symbol("L%d" % i, positive=True)) for i in range(3)]
    ns = {"exp": sympy.exp, "data": data, "To": To, "target": target, "sum": sum, "log": sympy.log}
    fexpr = eval(compile(ast.Expression(lambdas["f"]), "<f>", "eval"), dict(ns))(t)
    dfexpr = eval(compile(ast.Expression(lambdas["df"]), "<df>", "eval"), dict(ns))(t)
    diff = sympy.simplify(sympy.diff(fexpr, t) - dfexpr)
    st.oblige("df is the derivative of f (sympy: d/dt f - df simplifies to 0)", z3.BoolVal(diff == 0), kind="lemma",
              info={"f": str(fexpr), "df": str(dfexpr), "residual": str(diff)})
    A = sum(I * sympy.exp(-L * (t - To)) for I, L in data)
    st.oblige("f(t) == total activity at time t after removal minus the target (sympy)",
              z3.BoolVal(sympy.simplify(fexpr - (A - target)) == 0), kind="lemma", info={"f": str(fexpr)})
    return [st]


L_DF = Lemma("decay_time.df-is-derivative-of-f", lemma_df_is_derivative)


# ------------------------------------------------------------------------------ constructors: exactly the documented fields, nothing else

def _envinit_inputs(st, interp):
    use_state(st)
    self = VObj((ACT, "ActivationEnvironment"), {})
    vals = {k: VObj("Arg", {"kw": k}) for k in ("fluence", "Cd_ratio", "fast_ratio", "location")}
    return [self], dict(vals), {"self": self, "vals": vals}


def _envinit_post(st, interp, C, res):
    if res.outcome == "raise":
        st.oblige("never-raises", False, kind="raises", info={"exc": res.exc})
        return
    a = C["self"].attrs
    st.oblige("post.stores exactly fluence, Cd_ratio, fast_ratio, location (no derived or cached state)",
              z3.BoolVal(set(a) == set(C["vals"])), info={"fields": sorted(a)})
    st.oblige("post.each field is the caller's value", z3.BoolVal(all(a.get(k) is v for k, v in C["vals"].items())))


U_ENV_INIT = Unit("ActivationEnvironment.__init__", ACT + ".ActivationEnvironment.__init__", _envinit_inputs, _envinit_post,
                  writes={"*"}, replay={"module": "c14", "task": "replay"})


def c_build_formula(interp, st, args, kw):
    st.ghost.setdefault("recorded_calls", []).append(("build_formula", list(args), dict(kw)))
    return VObj("BuiltFormula", {"of": args[0]})


def _sampleinit_inputs(named):
    def mk(st, interp):
        use_state(st)
        self = VObj((ACT, "Sample"), {})
        f, m = VObj("Arg", {"what": "formula"}), VObj("Arg", {"what": "mass"})
        kw = {"name": "given-name"} if named else {}
        return [self, f, m], kw, {"self": self, "f": f, "m": m, "named": named}
    return mk


def _sampleinit_post(st, interp, C, res):
    if res.outcome == "raise":
        st.oblige("never-raises", False, kind="raises", info={"exc": res.exc})
        return
    a = C["self"].attrs
    want = {"formula", "mass", "name", "activity", "environment", "exposure", "rest_times"}
    st.oblige("post.has exactly the documented fields", z3.BoolVal(set(a) == want), info={"fields": sorted(a)})
    if set(a) != want:
        return
    bf = a["formula"]
    st.oblige("post.formula is build_formula(<the caller's formula>)",
              z3.BoolVal(isinstance(bf, VObj) and bf.cls == "BuiltFormula" and bf.attrs["of"] is C["f"]))
    st.oblige("post.mass is the caller's mass", z3.BoolVal(a["mass"] is C["m"]))
    st.oblige("post.no activity, no environment, no exposure, no rest times before calculate_activation",
              z3.BoolVal(isinstance(a["activity"], VDict) and not a["activity"].entries and a["environment"] is None
                         and isinstance(a["rest_times"], VTuple) and not a["rest_times"].items and a["exposure"] == 0))
    if C["named"]:
        st.oblige("post.the given name is kept", z3.BoolVal(a["name"] == "given-name"))


U_SAMPLE_INIT = [Unit("Sample.__init__[%s]" % ("name" if n else "no name"), ACT + ".Sample.__init__", _sampleinit_inputs(n), _sampleinit_post,
                      contracts={"periodictable.formulas.formula": c_build_formula}, writes={"*"}, replay={"module": "c14", "task": "replay"})
                 for n in (True, False)]
