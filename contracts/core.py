"""Sidecar contracts for periodictable/core.py (C08; lookups used by C01).

Heap model: IonSet / Element objects are VObj with their real fields; the caches (`ionset`,
`_isotopes`) hold ONE arbitrary pre-existing entry (symbolic key) - any other entry is framed, so
the step proved for this state is the step for every state of the cache."""
import z3

from pyvc import spec, shims, strings as STR, theories as T
from pyvc.contract import Unit, Lemma
from pyvc.state import State
from pyvc.values import *   # noqa
from pyvc.values import VObj, VOpt, VSym, VTuple, VList, VDict, Cx, Unsupported, VFunc
from .common import ATOMS, use_state, CORE


def R(x):
    return to_real(x)


# ------------------------------------------------------------------------------ IonSet.__getitem__

def _ionset_inputs(st, interp):
    use_state(st)
    owner = VObj((CORE, "Element"), {"symbol": st.fresh("symbol", z3.StringSort()),
                                     "ions": VTuple([st.fresh("ion_a", z3.IntSort()), st.fresh("ion_b", z3.IntSort())])})
    q0 = st.fresh("cached_charge", z3.IntSort())
    ion0 = VObj((CORE, "Ion"), {"element": owner, "charge": q0})      # representation invariant of the cache
    self = VObj((CORE, "IonSet"), {"element_or_isotope": owner, "ionset": VDict([[q0, ion0]])})
    q = st.fresh("charge", z3.IntSort())
    return [self, q], {}, {"self": self, "owner": owner, "q": q, "q0": q0, "ion0": ion0}


def _ionset_post(st, interp, C, res):
    self, owner, q = C["self"], C["owner"], C["q"]
    a, b = owner.attrs["ions"].items
    valid = z3.Or(q == a, q == b)
    cached = (q == C["q0"])
    if res.outcome == "raise":
        st.oblige("post.raises ValueError only for a charge the element does not define",
                  z3.And(z3.BoolVal(res.exc == "ValueError"), z3.Not(valid), z3.Not(cached)), kind="raises", info={"exc": res.exc})
        ents = self.attrs["ionset"].entries
        st.oblige("frame.cache unchanged on rejection", z3.BoolVal(len(ents) == 1 and ents[0][1] is C["ion0"]), kind="frame")
        return
    r = res.value
    ok = isinstance(r, VObj) and r.cls == (CORE, "Ion")
    st.oblige("post.returns an Ion", z3.BoolVal(ok))
    if not ok:
        return
    st.oblige("post.accepted charges are valid for the element (or already cached)", z3.Or(valid, cached))
    st.oblige("post.ion.charge == requested charge", spec.eq_goal(interp, st, r.attrs.get("charge"), q))
    st.oblige("post.ion.element is the owner", z3.BoolVal(r.attrs.get("element") is owner))
    st.oblige("post.cached entry is returned as the same object", z3.Implies(cached, z3.BoolVal(r is C["ion0"])))
    # second lookup returns the identical object (caching)
    from pyvc import extract
    fn = VFunc(extract.extract(CORE + ".IonSet.__getitem__"), [], qualname=CORE + ".IonSet.__getitem__")
    r2 = interp.call_function(st, fn, [self, q], {})
    st.oblige("post.a second lookup returns the same object", z3.BoolVal(r2 is r))
    ents = self.attrs["ionset"].entries
    st.oblige("inv.every cache entry keeps entry.charge == key and entry.element is the owner",
              z3.And([z3.And(spec.eq_goal(interp, st, e[1].attrs["charge"], e[0]), z3.BoolVal(e[1].attrs["element"] is owner))
                      for e in ents] + [z3.BoolVal(True)]), kind="frame")
    st.oblige("frame.the pre-existing entry is untouched", z3.BoolVal(ents[0][1] is C["ion0"]), kind="frame")


U_IONSET = Unit("IonSet.__getitem__", CORE + ".IonSet.__getitem__", _ionset_inputs, _ionset_post,
                inline={CORE + ".Ion.__init__", CORE + ".Ion.__getattr__", CORE + ".Isotope.__getattr__"}, replay={"module": "c08", "task": "replay"})


# ------------------------------------------------------------------------------ Element.__getitem__ / add_isotope

def _el_with_cache(st):
    a0 = st.fresh("cached_A", z3.IntSort())
    el = VObj((CORE, "Element"), {"symbol": st.fresh("symbol", z3.StringSort()), "ions": VTuple([])})
    iso0 = VObj((CORE, "Isotope"), {"element": el, "isotope": a0})
    el.attrs["_isotopes"] = VDict([[a0, iso0]])
    return el, a0, iso0


def _getitem_inputs(st, interp):
    use_state(st)
    el, a0, iso0 = _el_with_cache(st)
    n = st.fresh("number", z3.IntSort())
    return [el, n], {}, {"el": el, "a0": a0, "iso0": iso0, "n": n}


def _getitem_post(st, interp, C, res):
    hit = (C["n"] == C["a0"])
    if res.outcome == "raise":
        st.oblige("post.KeyError exactly for an isotope the element does not have",
                  z3.And(z3.BoolVal(res.exc == "KeyError"), z3.Not(hit)), kind="raises", info={"exc": res.exc})
    else:
        st.oblige("post.returns the cached isotope object for its mass number", z3.And(hit, z3.BoolVal(res.value is C["iso0"])))
    ents = C["el"].attrs["_isotopes"].entries
    st.oblige("frame.isotope table unchanged by lookup", z3.BoolVal(len(ents) == 1 and ents[0][1] is C["iso0"]), kind="frame")


U_EL_GETITEM = Unit("Element.__getitem__", CORE + ".Element.__getitem__", _getitem_inputs, _getitem_post,
                    replay={"module": "c08", "task": "replay"})


def _addiso_post(st, interp, C, res):
    if res.outcome == "raise":
        st.oblige("never-raises", False, kind="raises", info={"exc": res.exc})
        return
    el, n = C["el"], C["n"]
    r = res.value
    ok = isinstance(r, VObj) and r.cls == (CORE, "Isotope")
    st.oblige("post.returns an Isotope", z3.BoolVal(ok))
    if not ok:
        return
    st.oblige("post.isotope number matches", spec.eq_goal(interp, st, r.attrs.get("isotope"), n))
    st.oblige("post.isotope.element is the element", z3.BoolVal(r.attrs.get("element") is el))
    st.oblige("post.existing isotope is returned, not replaced", z3.Implies(n == C["a0"], z3.BoolVal(r is C["iso0"])))
    ents = el.attrs["_isotopes"].entries
    st.oblige("frame.pre-existing entry untouched", z3.BoolVal(ents[0][1] is C["iso0"]), kind="frame")
    st.oblige("inv.each entry has entry.isotope == key",
              z3.And([spec.eq_goal(interp, st, e[1].attrs["isotope"], e[0]) for e in ents] + [z3.BoolVal(True)]), kind="frame")


U_ADD_ISOTOPE = Unit("Element.add_isotope", CORE + ".Element.add_isotope", _getitem_inputs, _addiso_post,
                     inline={CORE + ".Isotope.__init__", CORE + ".IonSet.__init__"},
                     replay={"module": "c08", "task": "replay"})


# ------------------------------------------------------------------------------ PeriodicTable.symbol / isotope

TAttr = z3.Datatype("TableAttr")
TAttr.declare("t_absent")
TAttr.declare("t_element", ("t_el", T.Atom))
TAttr.declare("t_isotope", ("t_iso", T.Atom))     # D, T
TAttr.declare("t_other")
TAttr = TAttr.create()
TABLE_ATTR = z3.Function("table_attribute", z3.StringSort(), TAttr)
ISOTOPE_OF = z3.Function("isotope_entry", T.Atom, z3.IntSort(), T.Atom)
HAS_ISOTOPE = z3.Function("has_isotope", T.Atom, z3.IntSort(), z3.BoolSort())


class TableTheory:
    """a periodic table as seen by symbol()/isotope(): attribute lookup by (symbolic) name"""
    name = "Table"

    def truth(self, interp, st, v):
        return True

    def equals(self, interp, st, a, b):
        return a is b

    def hasattr(self, interp, st, v, name):
        name = name if not isinstance(name, str) else z3.StringVal(name)
        return z3.Not(TAttr.is_t_absent(TABLE_ATTR(name)))

    def getattr(self, interp, st, v, name, node=None):
        # the lookup functions under contract read the table only through hasattr/getattr of the KEY;
        # any other attribute is undeclared state (e.g. a cache): reported by the frame obligation, and
        # modelled as an initially empty dict so that the path can continue
        st.ghost.setdefault("illegal_writes", []).append("table.%s (undeclared state)" % name)
        store = st.ghost.setdefault("table_state", {})
        if name not in store:
            store[name] = VDict([])
        return store[name]

    def getattr_sym(self, interp, st, v, name):
        name = name if not isinstance(name, str) else z3.StringVal(name)
        t = TABLE_ATTR(name)
        if st.branch(TAttr.is_t_absent(t)):
            raise PyRaise("AttributeError", "no attribute")
        if st.branch(TAttr.is_t_element(t)):
            e = TAttr.t_el(t)
            st.assume(T.KIND(e) == 0)
            return ATOMS.sym(st, e)
        if st.branch(TAttr.is_t_isotope(t)):
            e = TAttr.t_iso(t)
            st.assume(T.KIND(e) == 1)
            return ATOMS.sym(st, e)
        return VObj("SomethingElse", {})


from pyvc.values import PyRaise  # noqa
TABLE = TableTheory()


def _patched_builtins(st):
    """getattr(table, <symbolic name>) / hasattr: routed to the table theory"""
    def hook_getattr(interp, st_, args, kw):
        obj = interp.resolve(st_, args[0])
        if isinstance(obj, VSym) and obj.theory is TABLE:
            try:
                return TABLE.getattr_sym(interp, st_, obj, args[1])
            except PyRaise as e:
                if e.exc == "AttributeError" and len(args) == 3:
                    return args[2]
                raise
        return shims._b_getattr(interp, st_, args, kw)

    def hook_hasattr(interp, st_, args, kw):
        obj = interp.resolve(st_, args[0])
        if isinstance(obj, VSym) and obj.theory is TABLE:
            return TABLE.hasattr(interp, st_, obj, args[1])
        return shims._b_hasattr(interp, st_, args, kw)
    from pyvc.values import VBuiltin
    return {(CORE, "getattr"): VBuiltin("getattr", hook_getattr), (CORE, "hasattr"): VBuiltin("hasattr", hook_hasattr)}


def _symbol_inputs(st, interp):
    use_state(st)
    interp.env_overrides.update(_patched_builtins(st))
    s = st.fresh("input", z3.StringSort())
    table = VSym(z3.Int("the_table"), TABLE)
    return [table, s], {}, {"s": s}


def _symbol_post(st, interp, C, res):
    t = TABLE_ATTR(C["s"])
    is_atom = z3.Or(TAttr.is_t_element(t), TAttr.is_t_isotope(t))
    if res.outcome == "raise":
        st.oblige("post.ValueError exactly when the table has no element or D/T of that symbol",
                  z3.And(z3.BoolVal(res.exc == "ValueError"), z3.Not(is_atom)), kind="raises", info={"exc": res.exc})
        return
    r = res.value
    ok = isinstance(r, VSym) and r.theory is ATOMS
    st.oblige("post.returns a table atom", z3.BoolVal(ok))
    if ok:
        st.oblige("post.the atom is the table's attribute of that name",
                  z3.And(is_atom, z3.If(TAttr.is_t_element(t), r.expr == TAttr.t_el(t), r.expr == TAttr.t_iso(t))))


U_SYMBOL = Unit("PeriodicTable.symbol", CORE + ".PeriodicTable.symbol", _symbol_inputs, _symbol_post,
                replay={"module": "c08", "task": "replay"})


# ------------------------------------------------------------------------------ change_table

def _ct_inputs(st, interp):
    use_state(st)
    a = ATOMS.new(st, "atom")
    table = VObj("TargetTable", {})
    return [a, table], {}, {"a": a.expr}


TT_EL = z3.Function("target_table_element", z3.IntSort(), T.Atom)     # table[Z]


TT_BY_SYMBOL = z3.Function("target_table_element_by_symbol", z3.StringSort(), T.Atom)     # getattr(table, symbol)


def c_tt_getitem(interp, st, args, kw):
    z = to_z3num(interp.resolve(st, args[1]))
    e = TT_EL(z)
    st.assume(z3.And(T.KIND(e) == 0, T.NUMBER(e) == z))
    return ATOMS.sym(st, e)


def _atom_getitem(interp, st, v, idx, node):
    """element[A] on a symbolic element: the isotope entry (KeyError if absent)"""
    a = v.expr
    i = to_z3num(idx)
    if not st.branch(HAS_ISOTOPE(a, i)):
        raise PyRaise("KeyError", "no such isotope")
    e = ISOTOPE_OF(a, i)
    st.assume(z3.And(T.KIND(e) == 1, T.BASE(e) == a, T.ISO(e) == i, T.NUMBER(e) == T.NUMBER(a), T.CHARGE(e) == 0))
    return ATOMS.sym(st, e)


ION_OF = z3.Function("ion_entry", T.Atom, z3.IntSort(), T.Atom)
HAS_ION = z3.Function("has_ion", T.Atom, z3.IntSort(), z3.BoolSort())


def _atom_attr(interp, st, v, name, node):
    if name == "ion":
        return VObj("IonSetOf", {"atom": v})
    return NotImplemented


def c_ionset_getitem(interp, st, args, kw):
    a = args[0].attrs["atom"].expr
    q = to_z3num(interp.resolve(st, args[1]))
    if not st.branch(HAS_ION(a, q)):
        raise PyRaise("ValueError", "not a valid charge")
    e = ION_OF(a, q)
    st.assume(z3.And(T.KIND(e) == 2, T.BASE(e) == a, T.CHARGE(e) == q, T.NUMBER(e) == T.NUMBER(a), T.ISO(e) == T.ISO(a)))
    return ATOMS.sym(st, e)


def _ct_inputs2(st, interp):
    args, kw, C = _ct_inputs(st, interp)
    st.ghost["atom_getitem"] = _atom_getitem
    st.ghost["atom_attr"] = _atom_attr
    return args, kw, C


def _ct_post(st, interp, C, res):
    a = C["a"]
    if res.outcome == "raise":
        st.oblige("post.raises only when the target table lacks that isotope or charge",
                  z3.BoolVal(res.exc in ("KeyError", "ValueError")), kind="raises", info={"exc": res.exc})
        return
    r = res.value
    ok = isinstance(r, VSym) and r.theory is ATOMS
    st.oblige("post.returns an atom", z3.BoolVal(ok))
    if not ok:
        return
    b = r.expr
    st.oblige("post.same atomic number", T.NUMBER(b) == T.NUMBER(a))
    st.oblige("post.same charge", T.CHARGE(b) == T.CHARGE(a))
    st.oblige("post.same mass number (0 for natural elements)", T.ISO(b) == T.ISO(a))
    st.oblige("post.same kind (element / isotope / ion)", T.KIND(b) == T.KIND(a))
    root = z3.If(T.KIND(b) == 0, b, z3.If(T.KIND(T.BASE(b)) == 0, T.BASE(b), T.BASE(T.BASE(b))))
    st.oblige("post.the result belongs to the target table", root == TT_EL(T.NUMBER(a)))


U_CHANGE_TABLE = Unit("change_table", CORE + ".change_table", _ct_inputs2, _ct_post,
                      contracts={"TargetTable.__getitem__": c_tt_getitem, "IonSetOf.__getitem__": c_ionset_getitem},
                      inline={CORE + ".ision", CORE + ".isisotope"},
                      replay={"module": "c08", "task": "replay"})


# ------------------------------------------------------------------------------ __reduce__ / _make_* round trip

def _reduce_inputs(kind):
    def mk(st, interp):
        use_state(st)
        name = st.fresh("table_name", z3.StringSort())
        z = st.fresh("Z", z3.IntSort())
        el = VObj((CORE, "Element"), {"table": name, "number": z, "symbol": st.fresh("sym", z3.StringSort())})
        C = {"name": name, "z": z, "kind": kind}
        if kind == "element":
            return [el], {}, C
        A = st.fresh("A", z3.IntSort())
        iso = VObj((CORE, "Isotope"), {"element": el, "isotope": A})
        if kind in ("isotope", "isotope_ion"):
            C["A"] = A
        if kind == "isotope":
            return [iso], {}, C
        q = st.fresh("q", z3.IntSort())
        C["q"] = q
        base = el if kind == "ion" else iso
        return [VObj((CORE, "Ion"), {"element": base, "charge": q})], {}, C
    return mk


def _reduce_post(st, interp, C, res):
    if res.outcome == "raise":
        st.oblige("never-raises", False, kind="raises", info={"exc": res.exc})
        return
    r = res.value
    ok = isinstance(r, VTuple) and len(r.items) == 2 and isinstance(r.items[0], VFunc) and isinstance(r.items[1], VTuple)
    st.oblige("post.returns (restorer, args)", z3.BoolVal(ok))
    if not ok:
        return
    want_fn = {"element": "_make_element", "isotope": "_make_isotope", "ion": "_make_ion", "isotope_ion": "_make_isotope_ion"}[C["kind"]]
    st.oblige("post.restorer is %s" % want_fn, z3.BoolVal(r.items[0].qualname == CORE + "." + want_fn))
    args = r.items[1].items
    want = [C["name"], C["z"]] + ([C["A"]] if "A" in C else []) + ([C["q"]] if "q" in C else [])
    st.oblige("post.args are (table name, Z[, A][, charge]) of the object",
              z3.And([spec.eq_goal(interp, st, x, y) for x, y in zip(args, want)] + [z3.BoolVal(len(args) == len(want))]))


def _reduce_unit(kind):
    cls = {"element": "Element", "isotope": "Isotope", "ion": "Ion", "isotope_ion": "Ion"}[kind]
    return Unit("%s.__reduce__[%s]" % (cls, kind), CORE + ".%s.__reduce__" % cls, _reduce_inputs(kind), _reduce_post,
                inline={CORE + ".Isotope.__getattr__"}, replay={"module": "c08", "task": "replay"})


U_REDUCE = [_reduce_unit(k) for k in ("element", "isotope", "ion", "isotope_ion")]


# ------------------------------------------------------------------------------ static facts about the classes (absint)

def lemma_atom_identity():
    """table atoms compare and hash by identity (L1 relies on it: atoms are dictionary keys of every
    composition): Element, Isotope and Ion define no comparison or hash methods"""
    import ast
    from pyvc import extract
    st = State()
    for cls in ("Element", "Isotope", "Ion"):
        node = extract.class_node(CORE, cls)
        bad = [n.name for n in node.body if isinstance(n, ast.FunctionDef)
               and n.name in ("__eq__", "__ne__", "__hash__", "__lt__", "__le__", "__gt__", "__ge__", "__bool__", "__len__")]
        bad += [t.id for n in node.body if isinstance(n, ast.Assign) for t in n.targets
                if isinstance(t, ast.Name) and t.id in ("__eq__", "__hash__")]
        st.oblige("class %s defines no equality / hash / ordering / truth methods" % cls, z3.BoolVal(not bad), kind="lemma",
                  info={"found": bad}, assume_after=False)
    return [st]


L_ATOM_IDENTITY = Lemma("atoms.compare-by-identity", lemma_atom_identity, advisory=True, replay={"module": "stateful", "task": "identity"})


def registrations():
    """[(names, loader function name, {class: bool})] from the delayed_load calls of periodictable/__init__.py"""
    import ast
    from pyvc import extract
    mod = extract.module("periodictable")
    out = []
    for node in ast.walk(mod.tree):
        if isinstance(node, ast.Call) and isinstance(node.func, ast.Attribute) and node.func.attr == "delayed_load":
            names = [e.value for e in node.args[0].elts]
            loader = node.args[1].id
            flags = {"Element": True, "Isotope": False, "Ion": False}
            for kw in node.keywords:
                key = {"element": "Element", "isotope": "Isotope", "ion": "Ion"}[kw.arg]
                flags[key] = bool(ast.literal_eval(kw.value))
            out.append((names, loader, flags))
    return mod, out


def lemma_registration_matches_loader():
    """the classes on which a lazily loaded name is registered are the classes on which its loader installs a
    class-level value (otherwise the first read through the other class bypasses the loader)"""
    import ast
    from pyvc import extract
    mod, regs = registrations()
    st = State()
    reads = lemma_registration_matches_loader.reads = []
    st.oblige("seven lazy groups are registered", z3.BoolVal(len(regs) == 7), kind="lemma", info={"found": len(regs)}, assume_after=False)
    for names, loader, flags in regs:
        fn = mod.toplevel(loader)
        target = None
        for n in ast.walk(fn):
            if isinstance(n, ast.Call) and isinstance(n.func, ast.Attribute) and isinstance(n.func.value, ast.Name):
                target = (n.func.value.id, n.func.attr)
        if target is None:
            st.oblige("loader %s calls module.init(elements)" % loader, z3.BoolVal(False), kind="lemma", assume_after=False)
            continue
        lm = extract.module("periodictable." + target[0])
        init = lm.toplevel(target[1])
        assigned = set()
        for n in ast.walk(init):
            if isinstance(n, ast.Assign):
                for t in n.targets:
                    if isinstance(t, ast.Attribute) and isinstance(t.value, ast.Name) and t.value.id in flags and t.attr in names:
                        assigned.add(t.value.id)
        registered = {c for c, on in flags.items() if on}
        reads.append("periodictable.%s.%s" % target)
        # (loaders that give no class-level value by a plain `Class.name = ...` statement have nothing to compare)
        if assigned:
            # the name is independent of what the sources say (a changed registration must fail THIS obligation)
            st.oblige("group %s: classes registered for lazy loading == classes given a class-level value by its loader" % names[0],
                      z3.BoolVal(assigned == registered), kind="lemma",
                      info={"assigned": sorted(assigned), "registered": sorted(registered), "loader": "%s.%s" % target},
                      assume_after=False)
    return [st]


L_REGISTRATION = Lemma("delayed_load.registration-matches-loader", lemma_registration_matches_loader, advisory=True,
                       replay={"module": "c09", "task": "replay_registration"})


# ------------------------------------------------------------------------------ Element.isotopes

def _isos_inputs(st, interp):
    use_state(st)
    el = VObj((CORE, "Element"), {"symbol": st.fresh("symbol", z3.StringSort())})
    keys = [st.fresh("A%d" % i, z3.IntSort()) for i in range(3)]
    st.assume(z3.Distinct(*keys))
    el.attrs["_isotopes"] = VDict([[k, VObj((CORE, "Isotope"), {"element": el, "isotope": k})] for k in keys])
    return [el], {}, {"el": el, "keys": keys}


def _isos_post(st, interp, C, res):
    if res.outcome == "raise":
        st.oblige("never-raises", False, kind="raises", info={"exc": res.exc})
        return
    v, keys = res.value, C["keys"]
    ok = isinstance(v, VList) and len(v.items) == len(keys)
    st.oblige("post.one entry per isotope of the element", z3.BoolVal(ok))
    if not ok:
        return
    items = [to_z3num(x) for x in v.items]
    st.oblige("post.increasing mass numbers", z3.And([items[i] < items[i + 1] for i in range(len(items) - 1)]))
    st.oblige("post.exactly the current keys of the isotope table (a permutation)",
              z3.And([z3.Or([it == k for it in items]) for k in keys]))
    st.oblige("post.a fresh list (callers may edit it)", z3.BoolVal(not any(v is x for x in C["el"].attrs.values())))


U_EL_ISOTOPES = Unit("Element.isotopes", CORE + ".Element.isotopes", _isos_inputs, _isos_post,
                     replay={"module": "c08", "task": "replay"})


# ------------------------------------------------------------------------------ PeriodicTable.isotope

class IsotopeListOf:
    """`A in element.isotopes`"""

    def __init__(self, atom):
        self.atom = atom

    def contains(self, interp, st, c, item):
        return HAS_ISOTOPE(self.atom, to_z3num(item))

    def truth(self, interp, st, v):
        return True

    def equals(self, interp, st, a, b):
        return a is b


def _table_setattr(self, interp, st, v, name, value, node=None):
    st.ghost.setdefault("illegal_writes", []).append("table.<attribute>")
    return None


TableTheory.setattr = _table_setattr


def _iso_inputs(kind):
    def mk(st, interp):
        use_state(st)
        interp.env_overrides.update(_patched_builtins(st))
        s = st.fresh("input", z3.StringSort())
        left, right = st.fresh("left_of_dash", z3.StringSort()), st.fresh("right_of_dash", z3.StringSort())
        dash = z3.StringVal("-")
        if kind == "no-dash":
            st.assume(z3.Not(z3.Contains(s, dash)))
        elif kind == "one-dash":
            st.assume(z3.And(s == z3.Concat(left, dash, right), z3.Not(z3.Contains(left, dash)), z3.Not(z3.Contains(right, dash))))
            st.assume(z3.Length(left) <= 4)
        else:
            st.assume(z3.Contains(s, dash))

        def split(interp_, st_, text, args):
            if args != ["-"] or not z3.eq(text, s):
                raise Unsupported("unexpected split")
            if kind == "no-dash":
                return VList([s])
            if kind == "one-dash":
                return VList([left, right])
            return VList([left, right, st_.fresh("rest", z3.StringSort())])
        st.ghost["str_split"] = split
        st.ghost["atom_attr"] = lambda i_, s_, v, name, node: VSym(v.expr, IsotopeListOf(v.expr)) if name == "isotopes" else NotImplemented
        st.ghost["atom_getitem"] = _atom_getitem
        table = VSym(z3.Int("the_table"), TABLE)
        return [table, s], {}, {"s": s, "left": left, "right": right, "kind": kind}
    return mk


def _iso_post(st, interp, C, res):
    kind, s = C["kind"], C["s"]
    sym = s if kind == "no-dash" else C["right"]
    t = TABLE_ATTR(sym)
    # int() leniency: an explicit '+' sign is read as the same number (not a mismatch of the key)
    plus = z3.PrefixOf(z3.StringVal("+"), C["left"])
    body = z3.If(plus, z3.SubString(C["left"], 1, z3.Length(C["left"]) - 1), C["left"])
    digits = z3.InRe(body, z3.Plus(z3.Range("0", "9")))
    A = z3.StrToInt(body)
    if kind == "no-dash":
        accept = z3.Or(TAttr.is_t_element(t), TAttr.is_t_isotope(t))
        want = z3.If(TAttr.is_t_element(t), TAttr.t_el(t), TAttr.t_iso(t))
    elif kind == "one-dash":
        # 'A-Sym': A a positive mass number of an isotope the element has (D/T take no mass number)
        accept = z3.And(digits, A > 0, TAttr.is_t_element(t), HAS_ISOTOPE(TAttr.t_el(t), A))
        want = ISOTOPE_OF(TAttr.t_el(t), A)
    else:
        accept = z3.BoolVal(False)
        want = None
    if res.outcome == "raise":
        st.oblige("post.ValueError exactly for keys that name no element / isotope of the table",
                  z3.And(z3.BoolVal(res.exc == "ValueError"), z3.Not(accept)), kind="raises", info={"exc": res.exc})
        return
    r = res.value
    ok = isinstance(r, VSym) and r.theory is ATOMS
    st.oblige("post.returns a table atom", z3.BoolVal(ok))
    if ok:
        st.oblige("post.accepted keys name an element, D/T, or an existing isotope", accept)
        if want is not None:
            st.oblige("post.the atom returned is the one the key names", r.expr == want)


U_TABLE_ISOTOPE = [Unit("PeriodicTable.isotope[%s]" % k, CORE + ".PeriodicTable.isotope", _iso_inputs(k), _iso_post,
                        replay={"module": "c08", "task": "replay"}) for k in ("no-dash", "one-dash", "two-dashes")]


# ------------------------------------------------------------------------------ _get_table and the four restorers (unpickling)

def _gt_inputs(known):
    def mk(st, interp):
        use_state(st)
        t1, t2 = VObj("Table", {"name": "T1"}), VObj("Table", {"name": "public"})
        reg = VDict([["public", t2], ["T1", t1]])
        st.ghost.setdefault("module_state", {})[(CORE, "PRIVATE_TABLES")] = reg
        name = {"known": "T1", "public": "public", "unknown": "T9"}[known]
        return [name], {}, {"reg": reg, "t1": t1, "t2": t2, "known": known}
    return mk


def _gt_post(st, interp, C, res):
    if C["known"] == "unknown":
        st.oblige("post.a name that is not registered raises ValueError (never another table)",
                  z3.BoolVal(res.outcome == "raise" and res.exc == "ValueError"), kind="raises",
                  info={"outcome": res.outcome, "exc": getattr(res, "exc", None)})
        return
    if res.outcome == "raise":
        st.oblige("never-raises for a registered name", False, kind="raises", info={"exc": res.exc})
        return
    st.oblige("post.returns the table registered under exactly that name",
              z3.BoolVal(res.value is (C["t1"] if C["known"] == "known" else C["t2"])))
    st.oblige("post.the registry is unchanged", z3.BoolVal(len(C["reg"].entries) == 2))


def c_default_table_public(interp, st, args, kw):
    reg = st.ghost["module_state"][(CORE, "PRIVATE_TABLES")]
    return reg.entries[0][1] if not args or args[0] is None else args[0]


U_GET_TABLE = [Unit("_get_table[%s name]" % k, CORE + "._get_table", _gt_inputs(k), _gt_post,
                    contracts={CORE + ".default_table": c_default_table_public}, replay={"module": "c10", "task": "replay"})
               for k in ("known", "public", "unknown")]


def c_get_table_rec(interp, st, args, kw):
    st.ghost.setdefault("recorded_calls", []).append(("_get_table", list(args)))
    return VObj("TableStub2", {"name": args[0]})


def c_tablestub_getitem(interp, st, args, kw):
    return VObj("ElStub2", {"table": args[0], "Z": args[1], "ion": VObj("IonSetStub", {"of": ("el", args[1])})})


def c_elstub_getitem2(interp, st, args, kw):
    return VObj("IsoStub2", {"el": args[0], "A": args[1], "ion": VObj("IonSetStub", {"of": ("iso", args[0].attrs["Z"], args[1])})})


def c_ionstub2_getitem(interp, st, args, kw):
    return VObj("IonStub2", {"of": args[0].attrs["of"], "q": args[1]})


def _mk_inputs(kind):
    def mk(st, interp):
        use_state(st)
        t = VObj("Arg", {"what": "table name"})
        z, a, q = (st.fresh(n, z3.IntSort()) for n in ("Z", "A", "charge"))
        args = {"element": [t, z], "isotope": [t, z, a], "ion": [t, z, q], "isotope_ion": [t, z, a, q]}[kind]
        return args, {}, {"t": t, "Z": z, "A": a, "q": q, "kind": kind}
    return mk


def _mk_post(st, interp, C, res):
    if res.outcome == "raise":
        st.oblige("never-raises", False, kind="raises", info={"exc": res.exc})
        return
    calls = st.ghost.get("recorded_calls", [])
    st.oblige("post.the table is looked up once, by the pickled table name", z3.BoolVal(len(calls) == 1 and calls[0][1][0] is C["t"]))
    v = res.value
    kind = C["kind"]
    if kind == "element":
        ok = isinstance(v, VObj) and v.cls == "ElStub2"
        st.oblige("post.returns table[Z]", z3.BoolVal(ok) if not ok else spec.eq_goal(interp, st, v.attrs["Z"], C["Z"]))
    elif kind == "isotope":
        ok = isinstance(v, VObj) and v.cls == "IsoStub2"
        st.oblige("post.returns table[Z][A]", z3.BoolVal(ok) if not ok else z3.And(spec.eq_goal(interp, st, v.attrs["A"], C["A"]),
                                                                                   spec.eq_goal(interp, st, v.attrs["el"].attrs["Z"], C["Z"])))
    elif kind == "ion":
        ok = isinstance(v, VObj) and v.cls == "IonStub2" and v.attrs["of"][0] == "el"
        st.oblige("post.returns table[Z].ion[charge]", z3.BoolVal(ok) if not ok else z3.And(spec.eq_goal(interp, st, v.attrs["q"], C["q"]),
                                                                                            spec.eq_goal(interp, st, v.attrs["of"][1], C["Z"])))
    else:
        ok = isinstance(v, VObj) and v.cls == "IonStub2" and v.attrs["of"][0] == "iso"
        st.oblige("post.returns table[Z][A].ion[charge]",
                  z3.BoolVal(ok) if not ok else z3.And(spec.eq_goal(interp, st, v.attrs["q"], C["q"]), spec.eq_goal(interp, st, v.attrs["of"][1], C["Z"]),
                                                       spec.eq_goal(interp, st, v.attrs["of"][2], C["A"])))


U_MAKE = [Unit("_make_%s" % k, CORE + "._make_" + k, _mk_inputs(k), _mk_post,
               contracts={CORE + "._get_table": c_get_table_rec, "TableStub2.__getitem__": c_tablestub_getitem,
                          "ElStub2.__getitem__": c_elstub_getitem2, "IonSetStub.__getitem__": c_ionstub2_getitem},
               replay={"module": "c08", "task": "replay"}) for k in ("element", "isotope", "ion", "isotope_ion")]


# ------------------------------------------------------------------------------ PeriodicTable.__getitem__ / __iter__, Element.__iter__

def _tgi_inputs(known):
    def mk(st, interp):
        use_state(st)
        zs = [st.fresh("Z%d" % i, z3.IntSort()) for i in range(3)]
        st.assume(z3.Distinct(*zs))
        els = [VObj((CORE, "Element"), {"number": z}) for z in zs]
        self = VObj((CORE, "PeriodicTable"), {"_element": VDict([[z, e] for z, e in zip(zs, els)])})
        q = st.fresh("Z", z3.IntSort())
        st.assume(z3.Or([q == z for z in zs]) if known else z3.And([q != z for z in zs]))
        return [self, q], {}, {"zs": zs, "els": els, "q": q, "known": known}
    return mk


def _tgi_post(st, interp, C, res):
    if not C["known"]:
        st.oblige("post.an atomic number that is not in the table raises KeyError (never a neighbour)",
                  z3.BoolVal(res.outcome == "raise" and res.exc == "KeyError"), kind="raises", info={"outcome": res.outcome})
        return
    if res.outcome == "raise":
        st.oblige("never-raises for a number of the table", False, kind="raises", info={"exc": res.exc})
        return
    st.oblige("post.returns the element registered under exactly that number",
              z3.And([z3.Implies(C["q"] == z, z3.BoolVal(res.value is e)) for z, e in zip(C["zs"], C["els"])]))


U_TABLE_GETITEM = [Unit("PeriodicTable.__getitem__[%s]" % ("known Z" if k else "unknown Z"), CORE + ".PeriodicTable.__getitem__",
                        _tgi_inputs(k), _tgi_post, replay={"module": "c08", "task": "replay"}) for k in (True, False)]


def _iter_inputs(cls, field):
    def mk(st, interp):
        use_state(st)
        ks = [st.fresh("key%d" % i, z3.IntSort()) for i in range(3)]
        st.assume(z3.Distinct(*ks))
        items = [VObj("Member", {"key": k}) for k in ks]
        self = VObj((CORE, cls), {field: VDict([[k, it] for k, it in zip(ks, items)])})
        return [self], {}, {"ks": ks, "items": items}
    return mk


def _iter_post(st, interp, C, res):
    if res.outcome == "raise":
        st.oblige("never-raises", False, kind="raises", info={"exc": res.exc})
        return
    v = res.value
    out = list(v.items) if isinstance(v, (VList, VTuple)) else None
    ok = out is not None and len(out) == len(C["items"]) and all(isinstance(x, VObj) and x.cls == "Member" for x in out)
    st.oblige("post.yields as many members as the table holds", z3.BoolVal(ok))
    if not ok:
        return
    st.oblige("post.each member exactly once", z3.BoolVal(all(any(x is it for x in out) for it in C["items"])))
    keys = [x.attrs["key"] for x in out]
    st.oblige("post.in increasing order of atomic number / mass number", z3.And([keys[i] < keys[i + 1] for i in range(len(keys) - 1)]))


U_TABLE_ITER = Unit("PeriodicTable.__iter__", CORE + ".PeriodicTable.__iter__", _iter_inputs("PeriodicTable", "_element"), _iter_post,
                    replay={"module": "c08", "task": "replay"})
U_ELEMENT_ITER = Unit("Element.__iter__", CORE + ".Element.__iter__", _iter_inputs("Element", "_isotopes"), _iter_post,
                      replay={"module": "c08", "task": "replay"})


# ------------------------------------------------------------------------------ loader guards: every init() marks the table with ITS OWN name

LOADER_MODULES = ("activation", "covalent_radius", "crystal_structure", "density", "magnetic_ff", "mass", "nsf", "xsf")


def lemma_loader_marks():
    """each `init(table, reload=False)` returns early iff its own mark is in table.properties and appends exactly that mark; the
    marks of the eight loaders are pairwise different (otherwise initialising one data family blocks or repeats another)"""
    import ast
    from pyvc import extract
    st = State()
    marks = {}
    reads = lemma_loader_marks.reads = []
    for m in LOADER_MODULES:
        mod = extract.module("periodictable." + m)
        fn = mod.toplevel("init")
        reads.append("periodictable.%s.init" % m)
        tested, appended = [], []
        for n in ast.walk(fn):
            if isinstance(n, ast.If) and isinstance(n.test, ast.BoolOp) and isinstance(n.test.op, ast.And):
                c = n.test.values[0]
                if isinstance(c, ast.Compare) and isinstance(c.left, ast.Constant) and isinstance(c.ops[0], ast.In) \
                        and ast.unparse(c.comparators[0]).endswith(".properties") and n.body and isinstance(n.body[0], ast.Return):
                    tested.append(c.left.value)
            if isinstance(n, ast.Call) and isinstance(n.func, ast.Attribute) and n.func.attr == "append" \
                    and ast.unparse(n.func.value).endswith(".properties") and n.args and isinstance(n.args[0], ast.Constant):
                appended.append(n.args[0].value)
        st.oblige("%s.init: the guard tests the mark that init appends (one mark)" % m,
                  z3.BoolVal(len(tested) == 1 and len(appended) == 1 and tested == appended), kind="lemma",
                  info={"tested": tested, "appended": appended}, assume_after=False)
        if appended:
            marks[m] = appended[0]
    st.oblige("the marks of the loaders are pairwise different", z3.BoolVal(len(set(marks.values())) == len(marks) == len(LOADER_MODULES)),
              kind="lemma", info={"marks": marks}, assume_after=False)
    return [st]


L_LOADER_MARKS = Lemma("loaders.each-init-uses-its-own-mark", lemma_loader_marks, advisory=True, replay={"module": "stateful", "task": "C06"})


# ------------------------------------------------------------------------------ define_elements (exports a table's atoms into a namespace)

def _de_inputs(st, interp):
    use_state(st)
    els = [VObj("ElemStub", {"symbol": s, "name": n}) for s, n in (("Fe", "iron"), ("O", "oxygen"))]
    D = VObj("ElemStub", {"symbol": "D", "name": "deuterium"})
    T_ = VObj("ElemStub", {"symbol": "T", "name": "tritium"})
    table = VObj("TableIter", {"els": els, "D": D, "T": T_})
    other = VObj("ElemStub", {"symbol": "Fe", "name": "iron", "of": "another table"})
    ns = VDict([["Fe", other], ["iron", other], ["_mine", "caller's own name"]])
    return [table, ns], {}, {"els": els + [D, T_], "ns": ns}


def c_tableiter_iter(interp, st, args, kw):
    return VList(list(args[0].attrs["els"]))


def _de_post(st, interp, C, res):
    if res.outcome == "raise":
        st.oblige("never-raises", False, kind="raises", info={"exc": res.exc})
        return
    ns = {k: v for k, v in C["ns"].entries if isinstance(k, str)}
    want = {}
    for e in C["els"]:
        want[e.attrs["symbol"]] = e
        want[e.attrs["name"]] = e
    st.oblige("post.every symbol and name of the table (D and T included) is bound to THIS table's atom, replacing what was bound before",
              z3.BoolVal(all(ns.get(k) is v for k, v in want.items())), info={"bound": sorted(k for k, v in want.items() if ns.get(k) is v)})
    st.oblige("post.other names of the namespace are left alone", z3.BoolVal(ns.get("_mine") == "caller's own name" and set(ns) == set(want) | {"_mine"}))
    r = res.value
    st.oblige("post.returns the list of exported names", z3.BoolVal(isinstance(r, VList) and sorted(r.items) == sorted(want)))


U_DEFINE_ELEMENTS = Unit("define_elements", CORE + ".define_elements", _de_inputs, _de_post, contracts={"TableIter.__iter__": c_tableiter_iter},
                         writes={"*"}, replay={"module": "c08", "task": "replay"})
