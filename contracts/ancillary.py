"""Sidecar contracts for magnetic_ff.py form factors (C20) and xsf.py (C05)."""
import z3

from pyvc import spec, shims, theories as T
from pyvc.contract import Unit, Lemma
from pyvc.state import State
from pyvc.values import *   # noqa
from pyvc.values import VObj, VOpt, VSym, VTuple, VList, Cx, Unsupported, VArrTag, NAN
from .common import ATOMS, AVOGADRO, use_state, fresh_atom_map, module_constant, FORMULAS
from . import nsf as NC

MFF = "periodictable.magnetic_ff"
XSF = "periodictable.xsf"
PI = shims.PI
_a = z3.Const("a!lam", T.Atom)


def R(x):
    return to_real(x)


# ------------------------------------------------------------------------------ magnetic form factors

def _ff_inputs(st, interp):
    coeffs = [st.fresh(n, z3.RealSort()) for n in ("A", "a", "B", "b", "C", "c", "D")]
    q = st.fresh("Q", z3.RealSort())
    return [VTuple(coeffs), q], {}, {"k": coeffs, "q": q}


def _ff_expected(st, interp, C):
    A, a, B, b, Cc, c, D = C["k"]
    s2 = (C["q"] / (4 * PI)) * (C["q"] / (4 * PI))
    e = lambda x: R(shims.exp_value(interp, st, -x * s2))
    return A * e(a) + B * e(b) + Cc * e(c) + D, s2


def _ff0_post(st, interp, C, res):
    if res.outcome == "raise":
        st.oblige("never-raises", False, kind="raises")
        return
    want, s2 = _ff_expected(st, interp, C)
    st.oblige("post.j0(Q) == A exp(-a s^2) + B exp(-b s^2) + C exp(-c s^2) + D,  s = Q/4pi", R(res.value) == want)
    A, a, B, b, Cc, c, D = C["k"]
    st.oblige("post.j0(0) == A + B + C + D", z3.Implies(C["q"] == 0, R(res.value) == A + B + Cc + D))


def _ffn_post(st, interp, C, res):
    if res.outcome == "raise":
        st.oblige("never-raises", False, kind="raises")
        return
    want, s2 = _ff_expected(st, interp, C)
    st.oblige("post.jn(Q) == s^2 (A exp(-a s^2) + B exp(-b s^2) + C exp(-c s^2) + D)", R(res.value) == s2 * want)
    st.oblige("post.jn(0) == 0", z3.Implies(C["q"] == 0, R(res.value) == 0))


U_FF0 = Unit("magnetic_ff.formfactor_0", MFF + ".formfactor_0", _ff_inputs, _ff0_post, arrays=[1], replay={"module": "c20", "task": "replay"})
U_FFN = Unit("magnetic_ff.formfactor_n", MFF + ".formfactor_n", _ff_inputs, _ffn_post, arrays=[1], replay={"module": "c20", "task": "replay"})


# ------------------------------------------------------------------------------ x-ray conversions

def _xconv(fname):
    def mk(st, interp):
        x = st.fresh("x", z3.RealSort())
        st.assume(x > 0)
        return [x], {}, {"x": x}

    def post(st, interp, C, res):
        if res.outcome == "raise":
            st.oblige("never-raises-for-positive-argument", False, kind="raises")
            return
        h = R(interp.lookup_global(st, "periodictable.constants", "plancks_constant"))
        c = R(interp.lookup_global(st, "periodictable.constants", "speed_of_light"))
        st.oblige("post.E * lambda == h c 1e7", z3.And(R(res.value) > 0, R(res.value) * C["x"] == h * c * z3.RealVal(10 ** 7)))
    return Unit("xsf." + fname, XSF + "." + fname, mk, post, replay={"module": "c05", "task": "replay"})


U_XWAVELENGTH = _xconv("xray_wavelength")
U_XENERGY = _xconv("xray_energy")


def _xrt_inputs(st, interp):
    e = st.fresh("energy", z3.RealSort())
    st.assume(e > 0)
    return [e], {}, {"e": e}


def _xrt_post(st, interp, C, res):
    from pyvc import extract
    from pyvc.values import VFunc
    if res.outcome == "raise":
        st.oblige("never-raises", False, kind="raises")
        return
    fn = VFunc(extract.extract(XSF + ".xray_energy"), [], qualname=XSF + ".xray_energy")
    e2 = interp.call_function(st, fn, [res.value], {})
    st.oblige("post.xray_energy(xray_wavelength(E)) == E", R(e2) == C["e"])


U_XROUNDTRIP = Unit("xsf.xray_energy(xray_wavelength(E))", XSF + ".xray_wavelength", _xrt_inputs, _xrt_post)


# ------------------------------------------------------------------------------ Xray.scattering_factors

def _sf_inputs(mode):
    def mk(st, interp):
        use_state(st)
        st.ghost["is_vector"] = st.fresh("energy_is_vector", z3.BoolSort())
        table = VTuple([VArrTag("table_energy_keV"), VArrTag("table_f1"), VArrTag("table_f2")]) if mode != "notable" else None
        self = VObj("XrayRec2", {"sftable": table})
        kw = {}
        C = {"mode": mode}
        if mode == "energy":
            C["e"] = kw["energy"] = st.fresh("energy", z3.RealSort())
            st.assume(C["e"] > 0)
        elif mode == "wavelength":
            C["w"] = kw["wavelength"] = st.fresh("wavelength", z3.RealSort())
            st.assume(C["w"] > 0)
        elif mode == "notable":
            kw["energy"] = st.fresh("energy", z3.RealSort())
        return [self], kw, C
    return mk


def _sf_post(st, interp, C, res):
    mode = C["mode"]
    if res.outcome == "raise":
        st.oblige("raises TypeError exactly when neither energy nor wavelength is given",
                  z3.BoolVal(mode == "neither" and res.exc == "TypeError"), kind="raises", info={"exc": res.exc})
        return
    v = res.value
    ok = isinstance(v, VTuple) and len(v.items) == 2
    st.oblige("post.returns-pair", z3.BoolVal(ok and mode != "neither"))
    if not ok:
        return
    if mode == "notable":
        st.oblige("post.no table gives (None, None)", z3.BoolVal(v.items[0] is None and v.items[1] is None))
        return
    if mode == "energy":
        e = C["e"]
    else:
        h = R(interp.lookup_global(st, "periodictable.constants", "plancks_constant"))
        c = R(interp.lookup_global(st, "periodictable.constants", "speed_of_light"))
        e = h * c / C["w"] * z3.RealVal(10 ** 7)
    t0, t1, t2 = (shims.tag_id(n) for n in ("table_energy_keV", "table_f1", "table_f2"))
    st.oblige("post.f1 == interp(E; table energies -> table f1) with NaN outside the table",
              spec.eq_goal(interp, st, v.items[0], shims.INTERP_NAN(e, t0, t1)))
    st.oblige("post.f2 == interp(E; table energies -> table f2) with NaN outside the table",
              spec.eq_goal(interp, st, v.items[1], shims.INTERP_NAN(e, t0, t2)))


def c_sftable(interp, st, args, kw):
    return args[0].attrs["sftable"]


U_SCATTERING_FACTORS = [Unit("Xray.scattering_factors[%s]" % m, XSF + ".Xray.scattering_factors", _sf_inputs(m), _sf_post, arrays=["energy", "wavelength"],
                             inline={XSF + ".xray_energy"}, replay={"module": "c05", "task": "replay"})
                        for m in ("energy", "wavelength", "notable", "neither")]


# ------------------------------------------------------------------------------ xray_sld

def c_xray_factors(interp, st, args, kw):
    """element.xray.scattering_factors(energy=E) -> (f1(E), f2(E)) or (None, None) without a table"""
    rec = args[0]
    a = rec.attrs["atom"].expr
    e = R(interp.resolve(st, kw["energy"]))
    if st.branch(T.XRAY_NONE(a)):
        return VTuple([None, None])
    return VTuple([T.F1(a, e), T.F2(a, e)])


def _xsld_defs():
    def mk(which):
        def fn(E):
            A, st = E.it, E.st
            e = R(E.interp.resolve(st, E.cur["energy"]))
            lam = {"mass": z3.Lambda([_a], T.MASS(_a) * z3.Select(A.val, _a)),
                   "sum_f1": z3.Lambda([_a], T.F1(_a, e) * z3.Select(A.val, _a)),
                   "sum_f2": z3.Lambda([_a], T.F2(_a, e) * z3.Select(A.val, _a))}[which]
            return spec.SumOver(st, E.V, lam, T.Atom)
        return fn
    return {k: mk(k) for k in ("mass", "sum_f1", "sum_f2")}


def _xsld_inv(E):
    V = E.V
    return [("visited-atoms-have-tables", spec.Forall(T.Atom, lambda a: z3.Implies(z3.Select(V, a), z3.Not(T.XRAY_NONE(a)))))]


def _xsld_inputs(mode):
    def mk(st, interp):
        use_state(st)
        A = fresh_atom_map(st, "atoms", positive=False)
        rho = st.fresh("density", z3.RealSort())
        st.assume(rho > 0)
        st.ghost["the_formula"] = VObj("AbstractFormula", {"__atoms__": A, "density": rho})
        st.ghost["is_vector"] = st.fresh("energy_is_vector", z3.BoolSort())
        kw = {}
        C = {"A": A, "rho": rho}
        if mode == "energy":
            C["e"] = kw["energy"] = st.fresh("energy", z3.RealSort())
            st.assume(C["e"] > 0)
        else:
            w = kw["wavelength"] = st.fresh("wavelength", z3.RealSort())
            st.assume(w > 0)
            h = R(interp.lookup_global(st, "periodictable.constants", "plancks_constant"))
            c = R(interp.lookup_global(st, "periodictable.constants", "speed_of_light"))
            C["e"] = h * c / w * z3.RealVal(10 ** 7)
        e = C["e"]
        M = spec.SumOver(st, A.dom, z3.Lambda([_a], T.MASS(_a) * z3.Select(A.val, _a)), T.Atom)
        C["M"] = M
        C["S1"] = spec.SumOver(st, A.dom, z3.Lambda([_a], T.F1(_a, e) * z3.Select(A.val, _a)), T.Atom)
        C["S2"] = spec.SumOver(st, A.dom, z3.Lambda([_a], T.F2(_a, e) * z3.Select(A.val, _a)), T.Atom)
        st.assume(M >= 0)
        return [st.fresh("compound", z3.IntSort())], kw, C
    return mk


def _xsld_post(st, interp, C, res):
    A = C["A"]
    ex = z3.Const("a!ex", T.Atom)
    if res.outcome == "raise":
        st.oblige("raises ValueError exactly when an atom has no scattering-factor table",
                  z3.And(z3.BoolVal(res.exc == "ValueError"),
                         z3.Exists([ex], z3.And(z3.Select(A.dom, ex), T.XRAY_NONE(ex)))), kind="raises", info={"exc": res.exc})
        return
    v = res.value
    ok = isinstance(v, VTuple) and len(v.items) == 2
    st.oblige("post.returns-pair", z3.BoolVal(ok))
    if not ok:
        return
    k = st.fresh("a_sk", T.Atom)
    st.oblige("post.values only if every atom has a table", z3.Implies(z3.Select(A.dom, k), z3.Not(T.XRAY_NONE(k))))
    re_ = R(interp.lookup_global(st, "periodictable.constants", "electron_radius"))
    NA = z3.RealVal(AVOGADRO)
    M, rho = C["M"], C["rho"]
    zero = all(is_concrete_num(x) and x == 0 for x in v.items)
    if zero:
        st.oblige("post.(0, 0) only for the empty formula (mass 0)", M == 0)
        return
    st.oblige("post.non-zero result only for mass != 0", M != 0)
    st.oblige("post.rho == r_e N_A density/mass 1e-8 sum n f1", R(v.items[0]) == re_ * NA * rho / M * z3.RealVal("1e-8") * C["S1"])
    st.oblige("post.irho == r_e N_A density/mass 1e-8 sum n f2", R(v.items[1]) == re_ * NA * rho / M * z3.RealVal("1e-8") * C["S2"])


XRAY_REC = {"XrayRec.scattering_factors": c_xray_factors}


def _xsld_unit(mode):
    target = XSF + ".xray_sld"
    return Unit("xray_sld[%s]" % mode, target, _xsld_inputs(mode), _xsld_post,
                contracts=dict(XRAY_REC, **{FORMULAS + ".formula": NC.c_formula_for_scattering,
                                            "AbstractFormula.atoms@get": NC.c_atoms_of_abstract}),
                inline={XSF + ".xray_energy"},
                loops={(target, 1): {"iter": "compound.atoms.items()", "define": _xsld_defs(), "invariant": _xsld_inv,
                                     "havoc": {"f1": lambda E, st: st.fresh("f1_h", z3.RealSort()),
                                               "f2": lambda E, st: st.fresh("f2_h", z3.RealSort())}}},
                replay={"module": "c05", "task": "replay"})


U_XRAY_SLD = [_xsld_unit("energy"), _xsld_unit("wavelength")]


# ------------------------------------------------------------------------------ index_of_refraction

def c_xray_sld(interp, st, args, kw):
    return VTuple([z3.Real("xray_sld.rho"), z3.Real("xray_sld.irho")])


def _ior_inputs(mode):
    def mk(st, interp):
        kw = {}
        C = {}
        if mode == "wavelength":
            C["w"] = kw["wavelength"] = st.fresh("wavelength", z3.RealSort())
            st.assume(C["w"] > 0)
        else:
            e = kw["energy"] = st.fresh("energy", z3.RealSort())
            st.assume(e > 0)
            h = R(interp.lookup_global(st, "periodictable.constants", "plancks_constant"))
            c = R(interp.lookup_global(st, "periodictable.constants", "speed_of_light"))
            C["w"] = h * c / e * z3.RealVal(10 ** 7)
        return [st.fresh("compound", z3.IntSort())], kw, C
    return mk


def _ior_post(st, interp, C, res):
    if res.outcome == "raise":
        st.oblige("never-raises", False, kind="raises", info={"exc": res.exc})
        return
    w = C["w"]
    rho, irho = z3.Real("xray_sld.rho"), z3.Real("xray_sld.irho")
    want = Cx(1 - w * w / (2 * PI) * rho * z3.RealVal("1e-6"), -(w * w / (2 * PI) * irho * z3.RealVal("1e-6")))
    st.oblige("post.n == 1 - lambda^2/(2 pi) (rho + i irho) 1e-6", spec.eq_goal(interp, st, res.value, want))


U_INDEX_OF_REFRACTION = [Unit("index_of_refraction[%s]" % m, XSF + ".index_of_refraction", _ior_inputs(m), _ior_post,
                              contracts={XSF + ".xray_sld": c_xray_sld}, inline={XSF + ".xray_wavelength"},
                              replay={"module": "c05", "task": "replay"}) for m in ("wavelength", "energy")]


# ------------------------------------------------------------------------------ cromermann.fxrayatstol: symbol/charge -> table key
# closed enumeration executed by the engine on the real body (concrete strings): every symbol spelling x charge

CM = "periodictable.cromermann"


def c_get_cmformula(interp, st, args, kw):
    return VObj("CMF", {"key": args[0]})


def c_atstol(interp, st, args, kw):
    return VTuple(["f0-of", args[0].attrs["key"]])


OMITTED = "omitted"


def _fx_unit(symbol, charge):
    def mk(st, interp):
        # `charge` left out by the caller: the documented default is "take the charge from the symbol's own suffix"
        return ([symbol, z3.Real("stol")] if charge == OMITTED else [symbol, z3.Real("stol"), charge]), {}, {}

    def post(st, interp, C, res):
        if res.outcome == "raise":
            st.oblige("never-raises", False, kind="raises", info={"exc": res.exc})
            return
        base = symbol.rstrip("0123456789+-")
        if charge is None or charge == OMITTED:
            tail = symbol[len(base):]
            want = base + ("1" + tail if tail in ("+", "-") else tail)
        elif charge == 0:
            want = base
        else:
            want = base + "%d%s" % (abs(charge), "+" if charge > 0 else "-")
        got = res.value.items[1] if isinstance(res.value, VTuple) else None
        st.oblige("post.table key for (%r, charge=%r) is %r" % (symbol, charge, want), z3.BoolVal(got == want),
                  info={"got": got})
    return Unit("cromermann.fxrayatstol[%s,%s]" % (symbol, charge), CM + ".fxrayatstol", mk, post,
                contracts={CM + ".getCMformula": c_get_cmformula, "CMF.atstol": c_atstol},
                replay={"module": "c05", "task": "replay"})


U_FXRAY_KEYS = [_fx_unit(s, q) for s in ("Fe", "O", "Cl-", "Ca2+", "H") for q in (None, OMITTED, 0, 1, 2, -1, -2, 3)]


# ------------------------------------------------------------------------------ cromermann.fxrayatq, Xray.f0, Xray.sld, Xray._element_symbol

def _fxq_inputs(st, interp):
    use_state(st)
    q = st.fresh("Q", z3.RealSort())
    sym = VObj("Arg", {"what": "symbol"})
    ch = VObj("Arg", {"what": "charge"})
    return [sym, q, ch], {}, {"Q": q, "symbol": sym, "charge": ch}


def c_rec_fxrayatstol(interp, st, args, kw):
    call = VObj("Call", {"args": list(args), "kw": dict(kw), "result": VObj("Ret", {})})
    st.ghost.setdefault("recorded_calls", []).append(call)
    return call.attrs["result"]


def _fxq_post(st, interp, C, res):
    if res.outcome == "raise":
        st.oblige("never-raises", False, kind="raises", info={"exc": res.exc})
        return
    calls = st.ghost.get("recorded_calls", [])
    ok = len(calls) == 1 and len(calls[0].attrs["args"]) + len(calls[0].attrs["kw"]) == 3
    st.oblige("post.evaluates the form factor once", z3.BoolVal(ok))
    if not ok:
        return
    a = calls[0].attrs["args"] + [calls[0].attrs["kw"].get(k) for k in ("symbol", "stol", "charge")[len(calls[0].attrs["args"]):]]
    st.oblige("post.for the caller's symbol and charge", z3.BoolVal(a[0] is C["symbol"] and a[2] is C["charge"]))
    st.oblige("post.at s = sin(theta)/lambda = Q/(4 pi)", spec.eq_goal(interp, st, a[1], C["Q"] / (4 * PI)))
    st.oblige("post.returns that value", z3.BoolVal(res.value is calls[0].attrs["result"]))


U_FXRAYATQ = Unit("cromermann.fxrayatq", CM + ".fxrayatq", _fxq_inputs, _fxq_post, arrays=[1],
                  contracts={CM + ".fxrayatstol": c_rec_fxrayatstol}, replay={"module": "c05", "task": "replay"})


def _xf0_inputs(st, interp):
    use_state(st)
    from .common import ATOMS
    a = ATOMS.new(st, "atom")
    self = VObj((XSF, "Xray"), {"element": a})
    q = VObj("Arg", {"what": "Q"})
    return [self, q], {}, {"self": self, "atom": a, "Q": q}


def c_element_symbol(interp, st, args, kw):
    return VObj("SymbolOf", {"rec": args[0]})


def _xf0_post(st, interp, C, res):
    if res.outcome == "raise":
        st.oblige("never-raises", False, kind="raises", info={"exc": res.exc})
        return
    calls = st.ghost.get("recorded_calls", [])
    ok = len(calls) == 1 and not calls[0].attrs["args"] and set(calls[0].attrs["kw"]) == {"Q", "symbol", "charge"}
    st.oblige("post.evaluates cromermann.fxrayatq once, by keyword", z3.BoolVal(ok))
    if not ok:
        return
    kw = calls[0].attrs["kw"]
    st.oblige("post.at the caller's Q", z3.BoolVal(kw["Q"] is C["Q"]))
    st.oblige("post.for the symbol of the underlying element (ion -> isotope -> element)",
              z3.BoolVal(isinstance(kw["symbol"], VObj) and kw["symbol"].cls == "SymbolOf" and kw["symbol"].attrs["rec"] is C["self"]))
    st.oblige("post.with the charge of the atom itself", spec.eq_goal(interp, st, kw["charge"], T.CHARGE(C["atom"].expr)))
    st.oblige("post.returns that value", z3.BoolVal(res.value is calls[0].attrs["result"]))


U_XRAY_F0 = Unit("Xray.f0", XSF + ".Xray.f0", _xf0_inputs, _xf0_post,
                 contracts={CM + ".fxrayatq": c_rec_fxrayatstol, XSF + ".Xray._element_symbol": c_element_symbol},
                 replay={"module": "c05", "task": "replay"})


def _xsym_inputs(st, interp):
    use_state(st)
    from .common import ATOMS
    a = ATOMS.new(st, "atom")
    return [VObj((XSF, "Xray"), {"element": a})], {}, {"atom": a}


def _root_element(a):
    b = T.BASE(a)
    return z3.If(T.KIND(a) == 0, a, z3.If(T.KIND(b) == 0, b, T.BASE(b)))


def _xsym_post(st, interp, C, res):
    if res.outcome == "raise":
        st.oblige("never-raises", False, kind="raises", info={"exc": res.exc})
        return
    a = C["atom"].expr
    # D and T carry their own symbol, but x-ray data are the element's: the symbol asked for is H's
    st.oblige("post.the symbol of the element underneath (ion -> isotope -> element), not the isotope's own",
              spec.eq_goal(interp, st, res.value, T.SYMBOL(_root_element(a))))


U_XRAY_ELEMENT_SYMBOL = Unit("Xray._element_symbol", XSF + ".Xray._element_symbol", _xsym_inputs, _xsym_post,
                             replay={"module": "c05", "task": "replay"})


ND_NONE = z3.Function("atom.number_density_is_none", T.Atom, z3.BoolSort())
ND = z3.Function("atom.number_density", T.Atom, z3.RealSort())


def _nd_attr(interp, st, v, name, node):
    if name == "number_density":
        return VOpt(ND_NONE(v.expr), ND(v.expr))
    return NotImplemented


def _xsldm_inputs(st, interp):
    use_state(st)
    from .common import ATOMS
    st.ghost["atom_attr"] = _nd_attr
    a = ATOMS.new(st, "atom")
    self = VObj((XSF, "Xray"), {"element": a})
    e = st.fresh("energy", z3.RealSort())
    st.assume(e > 0)
    return [self], {"energy": e}, {"self": self, "atom": a, "e": e}


def c_method_scattering_factors(interp, st, args, kw):
    a = args[0].attrs["element"].expr
    e = R(interp.resolve(st, kw["energy"]))
    call = st.ghost.setdefault("recorded_calls", [])
    call.append(dict(kw))
    if st.branch(T.XRAY_NONE(a)):
        return VTuple([None, None])
    return VTuple([T.F1(a, e), T.F2(a, e)])


def _xsldm_post(st, interp, C, res):
    if res.outcome == "raise":
        st.oblige("never-raises", False, kind="raises", info={"exc": res.exc})
        return
    a, e = C["atom"].expr, C["e"]
    v = res.value
    ok = isinstance(v, VTuple) and len(v.items) == 2
    st.oblige("post.returns a pair", z3.BoolVal(ok))
    if not ok:
        return
    re_ = R(interp.lookup_global(st, "periodictable.constants", "electron_radius"))
    nd = ND(a)
    nodata = z3.Or(T.XRAY_NONE(a), ND_NONE(a))
    if v.items[0] is None or v.items[1] is None:
        st.oblige("post.(None, None) only without a table or without a number density",
                  z3.And(nodata, z3.BoolVal(v.items[0] is None and v.items[1] is None)))
        return
    st.oblige("post.a value only with a table and a number density", z3.Not(nodata))
    st.oblige("post.rho == f1(E) r_e N 1e-8", spec.eq_goal(interp, st, v.items[0], T.F1(a, e) * re_ * nd * z3.RealVal("1e-8")))
    st.oblige("post.irho == f2(E) r_e N 1e-8", spec.eq_goal(interp, st, v.items[1], T.F2(a, e) * re_ * nd * z3.RealVal("1e-8")))


U_XRAY_SLD_METHOD = Unit("Xray.sld", XSF + ".Xray.sld", _xsldm_inputs, _xsldm_post,
                         contracts={XSF + ".Xray.scattering_factors": c_method_scattering_factors},
                         replay={"module": "c05", "task": "replay"})
