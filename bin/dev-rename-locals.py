"""Harmless refactoring for false-alarm testing: rename every function-local variable (not parameters, not globals) of every
function in periodictable/*.py by appending a suffix; the program's behaviour is unchanged."""
import ast, sys, os

SUFFIX = "_rn"

def params_of(fn):
    a = fn.args
    names = [x.arg for x in a.posonlyargs + a.args + a.kwonlyargs]
    if a.vararg: names.append(a.vararg.arg)
    if a.kwarg: names.append(a.kwarg.arg)
    return set(names)

def process_function(fn, module_names):
    own_params = params_of(fn)
    nested_params = set()
    declared = set()
    stored = set()
    nested_defs = set()
    for n in ast.walk(fn):
        if n is fn:
            continue
        if isinstance(n, (ast.FunctionDef, ast.Lambda)):
            nested_params |= params_of(n)
            if isinstance(n, ast.FunctionDef):
                nested_defs.add(n.name)
        elif isinstance(n, ast.ClassDef):
            nested_defs.add(n.name)
        elif isinstance(n, (ast.Global, ast.Nonlocal)):
            declared |= set(n.names)
        elif isinstance(n, ast.Name) and isinstance(n.ctx, (ast.Store, ast.Del)):
            stored.add(n.id)
        elif isinstance(n, ast.ExceptHandler) and n.name:
            stored.add(n.name)
    # imports inside the function bind names too: leave them alone
    imported = set()
    for n in ast.walk(fn):
        if isinstance(n, (ast.Import, ast.ImportFrom)):
            for a in n.names:
                imported.add((a.asname or a.name).split(".")[0])
    targets = stored - own_params - nested_params - declared - nested_defs - imported
    targets = {t for t in targets if not t.startswith("__")}
    if not targets:
        return 0
    for n in ast.walk(fn):
        if isinstance(n, ast.Name) and n.id in targets:
            n.id = n.id + SUFFIX
        elif isinstance(n, ast.ExceptHandler) and n.name in targets:
            n.name = n.name + SUFFIX
    return len(targets)

def main(root):
    total = 0
    for fn in sorted(os.listdir(root)):
        if not fn.endswith(".py"):
            continue
        p = os.path.join(root, fn)
        src = open(p).read()
        tree = ast.parse(src)
        module_names = set()
        count = 0
        def visit(body):
            nonlocal count
            for node in body:
                if isinstance(node, ast.FunctionDef):
                    count += process_function(node, module_names)
                elif isinstance(node, ast.ClassDef):
                    visit(node.body)
        visit(tree.body)
        if count:
            open(p, "w").write(ast.unparse(tree) + "\n")
        total += count
        print(fn, count)
    print("renamed", total)

main(sys.argv[1])
