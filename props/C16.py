"""C16 - D2O contrast matching agrees with direct substitution of labile hydrogen."""
from contracts import nsf as N
from contracts import formulas as F

from contracts import wrappers as W
from contracts import fasta as FA
from contracts import core as K
from contracts import formulas as F_DEP
ID = "C16"
LEVEL = "other"
TRUSTED = ["A1 real arithmetic", "A6 solvers",
           "the four SLDs returned by _D2O_slds are abstract here; that they are neutron_sld of H2O/D2O at 0.9982 natural "
           "density and of the H-/D-substituted compound is decided natively (task 'sample')",
           "Im b <= 0 for every tabulated atom (closed data fact used by the imaginary-part lemma; checked natively)"]
EXPLANATION = ("Deductive: mix_values, D2O_sld, D2O_match and fasta.D2Omatch are executed symbolically; linear mixing in volume "
               "fraction and D2O fraction, the endpoints and the match-point equation are discharged for all SLD values; the "
               "lemma 'substitution at fixed cell volume is linear mixing' and _isotope_substitution's density rule (C12 unit) "
               "connect the mix to direct substitution. Bounded 'sample' compares with direct substitution on real compounds "
               "and sweeps the fasta tables.")


def units(tier):
    return ((([N.U_MIX_VALUES, N.U_D2O_SLD, N.U_D2O_MATCH, N.L_SUBSTITUTION_LINEAR, N.U_FASTA_MATCH, N.U_FASTA_D2OSLD, F.U_SUBSTITUTION] + N.U_D2O_SLDS) + FA.U_MOLECULE_INIT + W.U_FORMULA_REPLACE) + [K.L_ATOM_IDENTITY]) + F.U_FORMULA_OF_FORMULA + F.U_INIT + ([F_DEP.U_COUNT_ATOMS, F_DEP.U_ATOMS])


def runner_tasks(tier):
    return [{"module": "c16", "task": "sample", "kind": "bounded", "clause": "direct substitution vs D2O_sld; fasta tables sweep"},
            {"module": "stateful", "task": "C16", "name": "stateful", "kind": "bounded", "clause": "same letters under different prefixes; compound on a private table is substituted"},
            {"module": "independence", "task": "observations", "name": "independence", "kind": "bounded", "arg": {"tags": ["C16"]}, "clause": "fixed observations give the same value as the first use of the library in a fresh interpreter, in a warmed-up interpreter (twice) and in reverse order, and have their documented value", "timeout": 900}]


REPLAY = {'module': 'c16', 'task': 'replay'}
