"""C10 - private tables are isolated from the public table and from each other."""
from contracts import wrappers as W
from contracts import formulas as FO
from contracts import core as K
from contracts import grammar as G
from contracts import nsf as N
from contracts import mixtures as MX
ID = "C10"
LEVEL = "other"
TRUSTED = ["events run on CPython itself in fresh interpreters", "digests as in C09, computed for the public and two private tables",
           "id()-disjointness of mutable per-atom objects is complete for the fully initialised state only"]
EXPLANATION = ("Closed step obligations (eval): for each of the nine property modules x public state {Pending, Loaded} x private "
               "state {Uninit, Init} x action (init(T), reads, assignment, in-place mutation; 136 evaluations) run in fresh "
               "interpreters: T serves the canonical values, the public table still reaches the canonical digest, a second "
               "private table is unchanged. shared_mutables: sets of id() of mutable objects reachable from the per-atom state "
               "of any two tables are disjoint. formula_routing: every grammar route with table=T yields only atoms of T, one "
               "grammar per table, pickles restore into T. Bounded: sampled interleavings. SMT obligations only for the value-level "
               "routing functions (core.change_table, Formula.change_table, parse_formula's per-table grammar cache, table lookups); "
               "the loader protocol (delayed_load) has none (see C09).")


def units(tier):
    # the functions that carry a table through the formula layer: which table an atom is taken from is a value-level
    # question and is under contract; the loader protocol itself is not (see EXPLANATION)
    return (([W.U_FORMULA_CHANGE_TABLE, K.U_CHANGE_TABLE] + G.U_PARSE_FORMULA + K.U_TABLE_ISOTOPE + [K.U_SYMBOL] + K.U_GET_TABLE + K.U_MAKE + [FO.U_CHANGE_TABLE_STRUCT, FO.U_CHANGE_TABLE_ATOM]) + MX.U_MIX_WRAPPERS) + [K.L_LOADER_MARKS]


def runner_tasks(tier):
    return [{"module": "c10", "task": "steps", "kind": "eval", "clause": "step obligations per module/state/action", "timeout": 1500},
            {"module": "c10", "task": "shared_mutables", "kind": "eval", "clause": "no shared mutable per-atom objects"},
            {"module": "c10", "task": "formula_routing", "kind": "eval", "clause": "formula(s, table=T) and pickles stay in T"},
            {"module": "c10", "task": "histories", "kind": "bounded", "clause": "sampled interleavings", "timeout": 3000},
            {"module": "stateful", "task": "C06", "name": "init order", "kind": "bounded", "clause": "private tables initialised in other orders serve the same masses / densities"},
            {"module": "independence", "task": "observations", "name": "independence", "kind": "bounded", "arg": {"tags": ["C10"]}, "clause": "fixed observations give the same value as the first use of the library in a fresh interpreter, in a warmed-up interpreter (twice) and in reverse order, and have their documented value", "timeout": 900}]


REPLAY = {"module": "c10", "task": "replay"}
