"""C18 - biomolecule sequences are the sum of their residues."""
from contracts import fasta as FA

from contracts import formulas as F_DEP
from contracts import core as K_DEP
from contracts import formulas as FO_DEP
ID = "C18"
LEVEL = "other"
TRUSTED = ["A7 residue literals and ambiguity sets read from fasta.py's source by ast/tokenize (runner/c18.py)"]
EXPLANATION = ("Deductive: _guess_type_from_filename, read_fasta (records per '>' header for 0-4 lines), _code_average (equal-weight average for 0-3 residues), Molecule.__init__ (H-form/D-form by substituting labile H[1], cell volume <-> density, masses, match point) and Sequence.__init__ (stop at '*', blanks ignored, one labile structure per letter in order, cell volume and charge are sums with multiplicity) for letter sequences up to 6. Closed: every code of the three tables. Bounded: random sequences (additivity, permutations, prefixes) and FASTA files.")


def units(tier):
    return (FA.U_GUESS_TYPE + FA.U_READ_FASTA + FA.U_CODE_AVERAGE) + FA.U_MOLECULE_INIT + FA.U_SEQUENCE_INIT + ([K_DEP.L_ATOM_IDENTITY] + [F_DEP.U_COUNT_ATOMS, F_DEP.U_ATOMS]) + ([K_DEP.U_CHANGE_TABLE, FO_DEP.U_CHANGE_TABLE_ATOM, FO_DEP.U_CHANGE_TABLE_STRUCT])


def runner_tasks(tier):
    return [{"module": "c18", "task": "code_tables", "kind": "eval", "clause": "every code of the three tables; ambiguity averages"},
            {"module": "c18", "task": "additivity", "kind": "bounded", "clause": "random sequences, permutations, prefixes"},
            {"module": "c18", "task": "fasta_files", "kind": "bounded", "clause": "FASTA records and type by extension"},
            {"module": "stateful", "task": "C18", "name": "stateful C18", "kind": "bounded", "clause": "sequences built after single codes were requested through the prefixes on a private table and after callers edited the formulas they were given"},
            {"module": "independence", "task": "observations", "name": "independence", "kind": "bounded", "arg": {"tags": ["C18"]}, "clause": "fixed observations give the same value as the first use of the library in a fresh interpreter, in a warmed-up interpreter (twice) and in reverse order, and have their documented value", "timeout": 900}]


REPLAY = {"module": "c18", "task": "replay"}
