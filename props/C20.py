"""C20 - ancillary tables are served to exactly the element or ion they belong to."""
from contracts import ancillary as A
from contracts import core as K

from contracts import wrappers as W
from contracts import loaders as LD
ID = "C20"
LEVEL = "proof"
TRUSTED = ["A1 real arithmetic", "A2 numpy exp/asarray element-wise", "A6 solvers",
           "independent readers of the five embedded tables (runner/c20.py) transcribe the documented layouts (A7)"]
EXPLANATION = ("Closed obligations (eval, exhaustive): every entry of the five ancillary tables, public and fresh private table, "
               "against independent readers, including the negative half (no entry -> None/AttributeError/KeyError, never a "
               "neighbour's data) and j0(0) within 0.5%% of 1, jn(0) == 0 for all 98 charge states. Deductive: formfactor_0/_n "
               "equal the documented expression for all coefficients and Q. Bounded: Q grid in floats.")


def units(tier):
    return (([A.U_FF0, A.U_FFN] + A.U_FXRAY_KEYS + [K.L_REGISTRATION]) + W.U_MFF + [A.U_FXRAYATQ, A.U_XRAY_F0, A.U_XRAY_ELEMENT_SYMBOL]) + LD.U_COVALENT_ROW + LD.U_CRYSTAL_ROW + [LD.U_SPECTRAL_ROW] + LD.U_MAGNETIC_ROW


def runner_tasks(tier):
    return [{"module": "c20", "task": "eval_tables", "kind": "eval", "clause": "table entries, both tables"},
            {"module": "c05", "task": "f0", "kind": "eval", "clause": "x-ray form factor served per atom/ion (symbol+charge resolution), all 211 entries"},
            {"module": "c20", "task": "formfactors", "kind": "bounded", "clause": "form factor values on a Q grid; Q=0 exhaustive"},
            {"module": "c09", "task": "steps", "name": "first-touch steps", "kind": "eval", "arg": {"groups": ["covalent_radius", "crystal_structure", "emission", "magnetic_ff", "xray"]}, "clause": "every first touch of these data families (explicit init first included) serves the table entries", "timeout": 1500},
            {"module": "c10", "task": "steps", "name": "private-table steps", "kind": "eval", "arg": {"modules": ["covalent_radius", "crystal_structure", "magnetic_ff", "xsf", "xsf_lines"]}, "clause": "private-table init of these modules: same entries, public untouched", "timeout": 1500},
            {"module": "stateful", "task": "C20", "name": "stateful C20", "kind": "bounded", "clause": "form factors on caller-owned Q arrays of every layout; shared Q array across j0..J"},
            {"module": "independence", "task": "observations", "name": "independence", "kind": "bounded", "arg": {"tags": ["C20"]}, "clause": "fixed observations give the same value as the first use of the library in a fresh interpreter, in a warmed-up interpreter (twice) and in reverse order, and have their documented value", "timeout": 900}]


REPLAY = {"module": "c20", "task": "replay"}
