"""C14 - activation equals the solution of the documented capture/decay chains."""
from contracts import activation as A
from contracts import core as K

from contracts import formulas as F_DEP
from contracts import core as K_DEP
ID = "C14"
LEVEL = "other"
TRUSTED = ["oracle: 60+-digit decimal evaluation of the three chain solutions with an independent reader of activation.dat",
           "the unit constant 1.6278e19 uCi per (atom/s) is taken as given"]
EXPLANATION = ("Deductive: activity() per reaction kind (ordinary capture with burn-up, two-step '2n', decay-fed 'b', fast reactions): the branch taken is the exact chain solution in real arithmetic, never negative, decays by exp(-lambda t) over the rest times, omission flags (fast ratio 0, cadmium ratio), the epithermal factor, Sample._accumulate / calculate_activation (a natural element adds the abundance-weighted sum of its isotopes and an explicitly named isotope adds to it; the calculation records its arguments) and the two constructors. Closed: every column of activation.dat for both tables and the table's own redundancy (parent half-lives). Bounded: all 513 rows on a parameter grid against a 60-digit oracle (float accuracy is NOT proved: see the known findings), element sums, re-used environments/samples.")


def units(tier):
    return (A.U_ACTIVITY + [A.U_EPITHERMAL, A.U_ACCUMULATE, A.U_CALC_ACTIVATION, K.L_REGISTRATION]) + [A.U_ENV_INIT] + A.U_SAMPLE_INIT + ([K_DEP.L_ATOM_IDENTITY] + [F_DEP.U_COUNT_ATOMS, F_DEP.U_ATOMS])


def runner_tasks(tier):
    return [{"module": "c14", "task": "table_columns", "kind": "eval", "clause": "activation.dat columns, both tables"},
            {"module": "c14", "task": "grid", "kind": "bounded", "clause": "all 513 rows x parameter grid vs exact chain solutions"},
            {"module": "c14", "task": "element_sum", "kind": "bounded", "clause": "natural element = abundance-weighted isotope sum"},
            {"module": "stateful", "task": "C14", "name": "stateful", "kind": "bounded", "clause": "re-used environment / sample gives what a fresh one gives; rest times as the caller's numpy vector over several calls"},
            {"module": "c09", "task": "steps", "name": "first-touch steps", "kind": "eval", "arg": {"groups": ["neutron_activation"]}, "clause": "every first touch of the activation data (incl. explicit init first) serves the canonical rows", "timeout": 1500},
            {"module": "c10", "task": "steps", "name": "private-table steps", "kind": "eval", "arg": {"modules": ["activation"]}, "clause": "activation.init on a private table: same rows, public untouched", "timeout": 1500},
            {"module": "independence", "task": "observations", "name": "independence", "kind": "bounded", "arg": {"tags": ["C14"]}, "clause": "fixed observations give the same value as the first use of the library in a fresh interpreter, in a warmed-up interpreter (twice) and in reverse order, and have their documented value", "timeout": 900}]


REPLAY = {"module": "c14", "task": "replay"}
