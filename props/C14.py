"""C14 - activation equals the solution of the documented capture/decay chains."""
from contracts import activation as A

ID = "C14"
LEVEL = "other"
TRUSTED = ["oracle: 60+-digit decimal evaluation of the three chain solutions with an independent reader of activation.dat",
           "the unit constant 1.6278e19 uCi per (atom/s) is taken as given"]
EXPLANATION = "see DESIGN.md C14"


def units(tier):
    return A.U_ACTIVITY + [A.U_EPITHERMAL, A.U_ACCUMULATE, A.U_CALC_ACTIVATION]


def runner_tasks(tier):
    return [{"module": "c14", "task": "table_columns", "kind": "eval", "clause": "activation.dat columns, both tables"},
            {"module": "c14", "task": "grid", "kind": "bounded", "clause": "all 513 rows x parameter grid vs exact chain solutions"},
            {"module": "c14", "task": "element_sum", "kind": "bounded", "clause": "natural element = abundance-weighted isotope sum"}]


REPLAY = {"module": "c14", "task": "replay"}
