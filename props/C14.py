"""C14 - activation equals the solution of the documented capture/decay chains."""
from contracts import activation as A
from contracts import core as K

ID = "C14"
LEVEL = "other"
TRUSTED = ["oracle: 60+-digit decimal evaluation of the three chain solutions with an independent reader of activation.dat",
           "the unit constant 1.6278e19 uCi per (atom/s) is taken as given"]
EXPLANATION = "see DESIGN.md C14"


def units(tier):
    return (A.U_ACTIVITY + [A.U_EPITHERMAL, A.U_ACCUMULATE, A.U_CALC_ACTIVATION, K.L_REGISTRATION]) + [A.U_ENV_INIT] + A.U_SAMPLE_INIT


def runner_tasks(tier):
    return [{"module": "c14", "task": "table_columns", "kind": "eval", "clause": "activation.dat columns, both tables"},
            {"module": "c14", "task": "grid", "kind": "bounded", "clause": "all 513 rows x parameter grid vs exact chain solutions"},
            {"module": "c14", "task": "element_sum", "kind": "bounded", "clause": "natural element = abundance-weighted isotope sum"},
            {"module": "stateful", "task": "C14", "name": "stateful", "kind": "bounded", "clause": "re-used environment / sample gives what a fresh one gives"},
            {"module": "c09", "task": "steps", "name": "first-touch steps", "kind": "eval", "arg": {"groups": ["neutron_activation"]}, "clause": "every first touch of the activation data (incl. explicit init first) serves the canonical rows", "timeout": 1500},
            {"module": "c10", "task": "steps", "name": "private-table steps", "kind": "eval", "arg": {"modules": ["activation"]}, "clause": "activation.init on a private table: same rows, public untouched", "timeout": 1500}]


REPLAY = {"module": "c14", "task": "replay"}
