"""C19 - Hill form is a canonical, composition-preserving normal form."""
from contracts import formulas as F

from contracts import formulas as FO
from contracts import core as K
from contracts import grammar as G
ID = "C19"
LEVEL = "other"
TRUSTED = ["A3 sorted() is a stable permutation ordered by key"]
EXPLANATION = ('Deductive: _convert_to_hill_notation (sorted() as a permutation of the keys + permutation lemma: same composition), Formula.hill (depends on the atoms only), _hill_key (class digit, symbol, 4-column isotope number, signed 3-column charge). Closed: key order against the Hill order and key injectivity over all symbol x isotope x charge classes. Bounded: canonicity, idempotence, parsed == hill, mixed-table formulas.')


def units(tier):
    return ((([F.U_HILL, F.U_HILL_NOTATION, F.L_DEN_PERMUTATION, F.U_COUNT_ATOMS, F.U_ATOMS] + F.U_FORMULA_KINDS) + [FO.U_HILL_KEY]) + [K.L_ATOM_IDENTITY]) + G.U_CONVERT_COMPOUND + [G.U_IMMUTABLE] + G.U_PARSE_FORMULA


def runner_tasks(tier):
    return [{"module": "c19", "task": "order_total", "kind": "eval", "clause": "sort key vs Hill order, key injectivity; all symbol/isotope/charge classes"},
            {"module": "c19", "task": "hill", "kind": "bounded", "clause": "composition, order, canonicity, idempotence, parsed == hill"},
            {"module": "stateful", "task": "C19", "name": "stateful C19", "kind": "bounded", "clause": "Hill form of mixed-table formulas, of isotope ions in one charge state, of trace counts"},
            {"module": "independence", "task": "observations", "name": "independence", "kind": "bounded", "arg": {"tags": ["C19"]}, "clause": "fixed observations give the same value as the first use of the library in a fresh interpreter, in a warmed-up interpreter (twice) and in reverse order, and have their documented value", "timeout": 900}]


REPLAY = {"module": "c19", "task": "replay"}
