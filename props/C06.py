"""C06 - mass, abundance and density of every nuclide are those of the embedded tables."""
from contracts import density as D
from contracts import loaders as L

from contracts import wrappers as W
from contracts import loaders as LD
from contracts import core as K
ID = "C06"
LEVEL = "proof"
TRUSTED = ["A1 real arithmetic (algebra units)", "A6 solvers",
           "A7 independent Decimal reader of the four embedded tables and of the value(unc)/[x]/[lo,hi] notations (runner/c06.py), "
           "table text taken from the module source by ast"]
EXPLANATION = ("Closed obligations (eval, exhaustive): every element and isotope x every field (mass, uncertainty, abundance, its "
               "uncertainty, density) of the public and a fresh private table against an independent reading of the embedded "
               "tables; abundance sums and weighted masses; every numeric cell through parse_uncertainty. Deductive: "
               "density(isotope) = element density x mass ratio with None (not an error) for unknown density, n = rho N_A/m, "
               "n d^3 = 1e24 for all atoms. Bounded: synthetic notation strings.")


def units(tier):
    return (((([D.U_DENSITY_EL, D.U_DENSITY_ISO] + D.U_NUMBER_DENSITY + D.U_INTERATOMIC + L.U_MASS_ABUNDANCE_LOOP) + W.U_MASS_GETTERS) + LD.U_DENSITY_ROW) + LD.U_MASS_TAIL + [LD.U_MASS_ISOTOPE_ROW] + LD.U_MASS_ELEMENT_ROW) + [K.L_LOADER_MARKS]


def runner_tasks(tier):
    return [{"module": "c06", "task": "eval_tables", "kind": "eval", "clause": "served values vs embedded tables, both tables"},
            {"module": "c06", "task": "density_algebra", "kind": "eval", "clause": "isotope density, number density, distance; all atoms"},
            {"module": "c06", "task": "parse_uncertainty_cells", "kind": "bounded", "clause": "notations: all table cells (complete) + synthetic strings (bounded)"},
            {"module": "stateful", "task": "C06", "name": "stateful C06", "kind": "bounded", "clause": "a private table serves the embedded values whatever other data module was initialised on it first"},
            {"module": "independence", "task": "observations", "name": "independence", "kind": "bounded", "arg": {"tags": ["C06"]}, "clause": "fixed observations give the same value as the first use of the library in a fresh interpreter, in a warmed-up interpreter (twice) and in reverse order, and have their documented value", "timeout": 900}]


REPLAY = {"module": "c06", "task": "replay"}
