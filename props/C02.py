"""C02 - composition arithmetic: atoms, mass, charge and mass fractions are additive."""
from contracts import formulas as F
from contracts import core as K

from contracts import wrappers as W
from contracts import grammar as G_PF
ID = "C02"
LEVEL = "proof"
TRUSTED = [
    "A1 real arithmetic: floats are mathematical reals (float effects checked by the bounded task 'sample')",
    "A3 builtins: list()/tuple() keep items and order, + concatenates, copy.copy is a shallow copy, sum/len/dict",
    "A5 CPython attribute resolution as generated from the class bodies in formulas.py/core.py",
    "A6 z3/cvc5 are sound",
    "L3: a finite sum over a *set* of keys is well defined (commutativity of +)",
]
EXPLANATION = (
    "Deductive: each constructor/operator/property of Formula is symbolically executed from the working tree and "
    "its postcondition (stated over the composition denotation den(structure, atom)) is discharged by z3/cvc5 for "
    "all structures of any nesting depth and length (loop invariants, recursion by contract, lemmas by induction). "
    "Bounded stand-in 'sample' re-checks the same postconditions on the real code in floats; 'init_kinds' covers "
    "the formula() initializer kinds natively.")


def units(tier):
    return (([F.U_COUNT_ATOMS, F.U_ATOMS, F.U_MASS, F.U_CHARGE, F.U_MOLMASS, F.U_MASS_FRACTION,
            F.L_SUM_HOMOGENEOUS, F.L_FRACTIONS, F.L_CONCAT, F.U_ADD, F.U_ADD_BAD, F.U_IADD,
            F.U_RMUL, F.U_RMUL_BAD, F.U_ION_MASS, K.L_ATOM_IDENTITY] + [F.U_IMMUTABLE_REC, F.L_DEN_CONGRUENCE, F.U_HILL_NOTATION, F.L_DEN_PERMUTATION] + F.U_FORMULA_KINDS + F.U_FORMULA_KINDS_NATURAL + F.U_FORMULA_OF_FORMULA + [F.U_HILL]) + [W.U_PKG[0]]) + [K.U_IONSET] + G_PF.U_PARSE_FORMULA


def runner_tasks(tier):
    return [{"module": "c02", "task": "sample", "kind": "bounded", "clause": "all clauses, in floats"},
            {"module": "c02", "task": "init_kinds", "kind": "bounded", "clause": "initializer kinds of formula()"},
            {"module": "stateful", "task": "C02", "name": "stateful", "kind": "bounded", "clause": "returned containers are the caller's; operands unchanged also when the result is later extended in place; trace counts; ion and isotope-ion of one element kept apart; history independence"},
            {"module": "stateful", "task": "identity", "name": "atom identity", "kind": "bounded", "clause": "different atoms are unequal, distinct dictionary keys, kept apart by formulas"},
            {"module": "independence", "task": "observations", "name": "independence", "kind": "bounded", "arg": {"tags": ["C02"]}, "clause": "fixed observations give the same value as the first use of the library in a fresh interpreter, in a warmed-up interpreter (twice) and in reverse order, and have their documented value", "timeout": 900}]


REPLAY = {"module": "c02", "task": "replay"}
