"""C11 - mixtures keep the requested mass or volume proportions and a consistent density."""
from contracts import mixtures as M
from contracts import formulas as F
from contracts import grammar as G

from contracts import wrappers as W
from contracts import core as K
from contracts import formulas as F_DEP
from contracts import density as D_DEP
from contracts import core as K_DEP
ID = "C11"
LEVEL = "other"
TRUSTED = ["A1 real arithmetic", "A3 min/sum/zip/all", "A4 pyparsing (string forms are observed, bounded)", "A6 solvers"]
EXPLANATION = ("Deductive: _mix_by_weight_pairs (1-3 components) and _mix_by_volume_pairs (1-2 components) are executed from the "
               "working tree on top of the proved operator contracts (n*f, f+=g) and the finite-sum lemmas: atoms, proportions, "
               "zero-quantity dropping, density = total mass/total volume, ValueError for a missing density, operands unchanged; "
               "the percent parse actions (remainder to the last component, rejection above 100%). Component count is bounded "
               "at 3 (loops over the pair list are unrolled); quantities, compositions and densities are unbounded. "
               "The absolute-amount parse actions (documented unit factors, mL via density, a counted group multiplies its recorded total, also on its own) and formula(text, name=/density=/natural_density=) (the result IS the parser's object, recorded amounts untouched). "
               "Bounded tasks: 'pairs' (random lists to 6 components) and 'strings' (unit spellings, nesting, repeated groups).")


def units(tier):
    return (((M.U_MIX_WEIGHT + M.U_MIX_VOLUME + M.U_BY_WEIGHT + M.U_BY_VOLUME + M.U_MIX_WRAPPERS +
            [F.L_SUM_HOMOGENEOUS, F.L_SUM_ADDITIVE, F.L_SUM_SUPPORT, F.L_CONCAT, F.U_RMUL, F.U_IADD, G.L_TOKENS]) + [W.U_PKG[1], W.U_PKG[2]]) + [K.L_ATOM_IDENTITY]) + M.U_BY_ABSMASS + M.U_BY_LAYER + F.U_FORMULA_STRING + G.U_PARSE_FORMULA + ([F_DEP.U_COUNT_ATOMS, F_DEP.U_ATOMS]) + ([D_DEP.U_DENSITY_EL, D_DEP.U_DENSITY_ISO, K_DEP.L_REGISTRATION])


def runner_tasks(tier):
    return [{"module": "c11", "task": "pairs", "kind": "bounded", "clause": "mix_by_weight / mix_by_volume calls"},
            {"module": "c11", "task": "strings", "kind": "bounded", "clause": "string forms, units, nesting, repeated groups"},
            {"module": "stateful", "task": "C11", "name": "stateful", "kind": "bounded", "clause": "series of mixtures from the same component objects; '( mixture )@dn'; bare % before symbols that begin like a keyword; stated amounts kept with name=/density="},
            {"module": "independence", "task": "observations", "name": "independence", "kind": "bounded", "arg": {"tags": ["C11"]}, "clause": "fixed observations give the same value as the first use of the library in a fresh interpreter, in a warmed-up interpreter (twice) and in reverse order, and have their documented value", "timeout": 900}]


REPLAY = {"module": "c11", "task": "replay"}
