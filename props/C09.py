"""C09 - lazy loading is invisible: served values do not depend on access order."""
from contracts import core as K

ID = "C09"
LEVEL = "other"
TRUSTED = ["the events of the alphabet are run on CPython itself in fresh interpreters (no model of the object system)",
           "the digest covers all elements, all isotopes and a fixed sample of ions for every lazily loaded group",
           "independence of groups (an operation of one group does not touch another) is checked by the step obligations' "
           "clause (ii), not by a static frame analysis"]
EXPLANATION = ("Invariant argument decided by closed step obligations (eval): Inv = every lazy group is either Pending (exact class "
               "state of a fresh interpreter) or Loaded (digest identical to the canonical route). Base: a fresh interpreter is "
               "all-Pending (one check per group and class cell). Step: for every group x state {Pending, Loaded} x event of the 258-event alphabet that "
               "touches it (count in the evidence) the real code is run from that state in a fresh interpreter and must end in Inv with "
               "the canonical value returned. Because each Inv state has a single concretisation per group this finite set is "
               "the induction step for all histories, up to the group-independence clause. Bounded cross-check: sampled "
               "histories of length <= 2 (quick) / <= 3 (thorough). No SMT obligations: delayed_load's protocol is a property of "
               "CPython's class/descriptor machinery, outside the symbolic subset (DESIGN.md C09).")


def units(tier):
    return [K.L_REGISTRATION]


def runner_tasks(tier):
    return [{"module": "c09", "task": "base", "kind": "eval", "clause": "base case: fresh interpreter is all-Pending"},
            {"module": "c09", "task": "steps", "kind": "eval", "clause": "step obligations (group, state, event)", "timeout": 1500},
            {"module": "c09", "task": "histories", "kind": "bounded", "clause": "sampled event sequences", "timeout": 3000},
            {"module": "independence", "task": "observations", "name": "independence", "kind": "bounded", "arg": {"tags": ["C09"]}, "clause": "fixed observations give the same value as the first use of the library in a fresh interpreter, in a warmed-up interpreter (twice) and in reverse order, and have their documented value", "timeout": 900}]


REPLAY = {"module": "c09", "task": "replay"}
