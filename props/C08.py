"""C08 - atoms are unique per table and every lookup route returns the same object."""
from contracts import core as K

ID = "C08"
LEVEL = "proof"
TRUSTED = ["A3 dict/tuple semantics, pickle/deepcopy reconstruct via __reduce__", "A5 attribute resolution", "A6 solvers",
           "independent expectation of the identity sweep is read from element_base / isotope tables by ast (A7)"]
EXPLANATION = ("Deductive: IonSet.__getitem__ (caching, validation, representation invariant), Element.__getitem__/add_isotope, "
               "PeriodicTable.symbol, change_table, the four __reduce__ forms are executed symbolically for arbitrary keys and "
               "cache states. Closed families (eval, exhaustive): all 17 765 objects of the public and a private table through "
               "every route incl. pickle/deepcopy/iteration, and all single-edit neighbours of valid keys.")


def units(tier):
    return [K.U_IONSET, K.U_EL_GETITEM, K.U_ADD_ISOTOPE, K.U_SYMBOL, K.U_CHANGE_TABLE] + K.U_REDUCE + [K.L_ATOM_IDENTITY, K.U_EL_ISOTOPES] + K.U_TABLE_ISOTOPE + K.U_GET_TABLE + K.U_MAKE + K.U_TABLE_GETITEM + [K.U_TABLE_ITER, K.U_ELEMENT_ITER]


def runner_tasks(tier):
    return [{"module": "c08", "task": "identity_sweep", "kind": "eval", "clause": "identity through every route, all objects"},
            {"module": "c08", "task": "invalid_neighbours", "kind": "eval", "clause": "invalid neighbours raise or match"},
            {"module": "c10", "task": "formula_routing", "name": "pickle routing", "kind": "eval", "clause": "pickle / deepcopy identity in process, in another interpreter, and after the table variable was dropped"},
            {"module": "stateful", "task": "C08", "name": "stateful", "kind": "bounded", "clause": "lookups after the table changed (isotope added after .isotopes was read; key leak between lookups)"},
            {"module": "stateful", "task": "identity", "name": "atom identity", "kind": "bounded", "clause": "different atoms are unequal, distinct dictionary keys, kept apart by formulas"},
            {"module": "independence", "task": "observations", "name": "independence", "kind": "bounded", "arg": {"tags": ["C08"]}, "clause": "fixed observations give the same value as the first use of the library in a fresh interpreter, in a warmed-up interpreter (twice) and in reverse order, and have their documented value", "timeout": 900}]


REPLAY = {"module": "c08", "task": "replay"}
