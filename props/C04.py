"""C04 - neutron results obey density, cell-size, grouping, unit and vector invariances."""
from contracts import nsf as N
from contracts import formulas as F

from contracts import wrappers as W
from contracts import grammar as G_PF
from contracts import formulas as F_DEP
from contracts import core as K_DEP
from contracts import formulas as FO_DEP
ID = "C04"
LEVEL = "proof"
TRUSTED = [
    "A1 real arithmetic (float re-check: bounded task 'relations')",
    "A2 numpy ufuncs act element-wise: a vector call equals, entry by entry, the scalar call (index semantics); "
    "output *shape* is checked natively (bounded)",
    "A6 z3/cvc5 are sound",
]
EXPLANATION = ("Deductive: density scaling is a relational obligation on two symbolic runs of the real _calculate_scattering; "
               "count scaling / regrouping follow from neutron_scattering == documented equations over compound.atoms (C03 units, "
               "re-discharged here) plus the homogeneity lemma of finite sums; conversions and their anchor values are "
               "obligations on the real conversion functions with exact rational constants; signs from the real body. "
               "The composite calculator (_sum_piece, _compute for 1-3 materials, the outer function end to end) is a regrouping of the same atoms: proved equal to the same equations, zeros only for zero mass or density. "
               "Bounded 'relations' re-checks all relations and output shapes on the real code in floats.")


def units(tier):
    return ([N.U_CALC, N.U_CALC_SCALE, N.L_DENSITY_SCALING, N.L_COUNT_SCALING, F.L_SUM_HOMOGENEOUS,
            N.U_NS_WAVELENGTH, N.U_NS_ENERGY, N.U_WAVELENGTH, N.U_ENERGY, N.U_WAVELENGTH_V, N.U_ROUNDTRIP,
            N.U_ANCHOR_E, N.U_ANCHOR_W, N.U_ANCHOR_V, N.U_SBW_PLAIN, N.U_SBW_TABLE] + F.U_FORMULA_OF_FORMULA + [F.U_FORMULA_NEUTRON_SLD]) + [W.U_NSF_NEUTRON_SLD] + [N.U_SUM_PIECE, N.U_COMPUTE_1, N.U_COMPUTE_2, N.U_COMPUTE_3] + N.U_COMPOSITE_OUTER + G_PF.U_PARSE_FORMULA + ([K_DEP.L_ATOM_IDENTITY] + [F_DEP.U_COUNT_ATOMS, F_DEP.U_ATOMS]) + ([K_DEP.U_CHANGE_TABLE, FO_DEP.U_CHANGE_TABLE_ATOM, FO_DEP.U_CHANGE_TABLE_STRUCT])


def runner_tasks(tier):
    return [{"module": "c04", "task": "relations", "kind": "bounded", "clause": "all relations and output shapes, in floats"},
            {"module": "c07", "task": "energy_tables", "kind": "eval", "clause": "energy-dependent tables: one strictly increasing wavelength node per tabulated energy (vector calls interpolate on this axis)"},
            {"module": "stateful", "task": "C04", "name": "stateful", "kind": "bounded", "clause": "deprecated Formula.neutron_sld method vs nsf.neutron_sld; argument arrays untouched; regrouped strings and the composite calculator; results for a string do not depend on what other callers did to their parse of it"},
            {"module": "stateful", "task": "C03", "name": "stateful C03", "kind": "bounded", "clause": "vector = scalar entry-wise for every numeric type and array layout (incl. descending and unsorted)"},
            {"module": "independence", "task": "observations", "name": "independence", "kind": "bounded", "arg": {"tags": ["C04"]}, "clause": "fixed observations give the same value as the first use of the library in a fresh interpreter, in a warmed-up interpreter (twice) and in reverse order, and have their documented value", "timeout": 900}]


REPLAY = {'module': 'c04', 'task': 'replay'}
