"""C03 - neutron SLD, cross sections and penetration follow the documented equations."""
from contracts import nsf as N
from contracts import core as K

from contracts import wrappers as W
from contracts import formulas as F
from contracts import formulas as F_DEP
from contracts import core as K_DEP
ID = "C03"
LEVEL = "proof"
TRUSTED = [
    "A1 real arithmetic (float re-check: bounded task 'sample')",
    "A2 numpy: ufuncs element-wise (index semantics), np.interp piecewise linear & end-clamped, np.maximum, abs, sqrt",
    "A6 z3/cvc5 are sound",
    "A7 transcription of the neutron_scattering docstring equations (contracts/nsf.py, quoted)",
    "callee contracts used modularly: formulas.formula (C02/C12 units), Neutron.has_sld/scattering_by_wavelength (own units here)",
]
EXPLANATION = ("Deductive: _calculate_scattering, Neutron.scattering_by_wavelength (with/without energy table) and "
               "neutron_scattering (wavelength/energy/default) are executed symbolically from the working tree; the loop "
               "over compound.atoms is cut at SumOver invariants; postconditions are the docstring equations. "
               "Closed family 'nodes' (C07 runner) ties the interpolation tables to the data; bounded 'sample' re-checks in floats.")


def units(tier):
    return (([N.U_CALC, N.U_SBW_PLAIN, N.U_SBW_TABLE, N.L_SUM_POSITIVE, N.U_NS_WAVELENGTH, N.U_NS_ENERGY, N.U_NS_DEFAULT,
            N.U_NSCAT, N.U_NSLD, N.L_ELEMENT_VS_COMPOUND, K.L_REGISTRATION]) + [W.U_NSF_NEUTRON_SLD, W.U_PKG[3], W.U_PKG[4], W.U_FROM_ATOMS[0]]) + F.U_FORMULA_OF_FORMULA + F.U_INIT + ([K_DEP.L_ATOM_IDENTITY] + [F_DEP.U_COUNT_ATOMS, F_DEP.U_ATOMS])


def runner_tasks(tier):
    return [{"module": "c03", "task": "sample", "kind": "bounded", "clause": "all outputs vs documented equations, in floats"},
            {"module": "c07", "task": "energy_tables", "kind": "eval", "clause": "energy-dependent tables: nodes, clamping, interpolation axis"},
            {"module": "c09", "task": "steps", "name": "first-touch steps", "kind": "eval", "arg": {"groups": ["neutron"]}, "clause": "every first touch of the neutron data (element, isotope, ion, calculators) serves the canonical data", "timeout": 1500},
            {"module": "stateful", "task": "C03", "name": "stateful C03", "kind": "bounded", "clause": "wavelength / energy in every numeric type and array layout: shape, entry-wise equality with the scalar call, argument untouched; compounds that print alike are computed from their own atoms"},
            {"module": "independence", "task": "observations", "name": "independence", "kind": "bounded", "arg": {"tags": ["C03"]}, "clause": "fixed observations give the same value as the first use of the library in a fresh interpreter, in a warmed-up interpreter (twice) and in reverse order, and have their documented value", "timeout": 900}]


REPLAY = {'module': 'c03', 'task': 'replay'}
