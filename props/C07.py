"""C07 - neutron data of every element and isotope are those of the embedded table."""
from contracts import nsf as N
from contracts import core as K
from contracts import loaders as L

ID = "C07"
LEVEL = "proof"
TRUSTED = ["A2 numpy.interp piecewise linear, end clamped", "A6 solvers",
           "A7 independent reader of nsftable / nsftableI / ENERGY_DEPENDENT_TABLES from the module sources (runner/c07.py)"]
EXPLANATION = ("Closed obligations (eval, exhaustive): all 364 rows x 11 fields, 16 imaginary rows, every atom without a row "
               "(has_sld False), single-isotope fallbacks, every node of the 14 energy tables (scalar and vector), clamping, "
               "axis monotonicity, natural Lu - for the public table, a fresh private table and the public table again. "
               "Deductive: scattering_by_wavelength interpolates the table's b_c column against its wavelength column with end "
               "clamping (C03 units re-discharged), E lambda^2 constant.")


def units(tier):
    return [N.U_SBW_PLAIN, N.U_SBW_TABLE, N.U_WAVELENGTH, N.U_ENERGY] + L.U_NSF_ROW + [K.L_REGISTRATION]


def runner_tasks(tier):
    return [{"module": "c07", "task": "eval_tables", "kind": "eval", "clause": "all rows and fields, absent atoms, fallbacks"},
            {"module": "c07", "task": "energy_tables", "kind": "eval", "clause": "all nodes of the energy-dependent tables"},
            {"module": "stateful", "task": "C07", "name": "stateful", "kind": "bounded", "clause": "re-used wavelength buffers; caller's array untouched"},
            {"module": "c09", "task": "steps", "name": "first-touch steps", "kind": "eval", "arg": {"groups": ["neutron"]}, "clause": "every first touch of the neutron data serves the rows of the table", "timeout": 1500},
            {"module": "c10", "task": "steps", "name": "private-table steps", "kind": "eval", "arg": {"modules": ["nsf"], "clauses": ["t"]},
             "clause": "nsf.init on a private table (before or after the public data were first used, again, after edits): the private table serves the rows of the table", "timeout": 1500},
            {"module": "independence", "task": "observations", "name": "independence", "kind": "bounded", "arg": {"tags": ["C07"]}, "clause": "fixed observations give the same value as the first use of the library in a fresh interpreter, in a warmed-up interpreter (twice) and in reverse order, and have their documented value", "timeout": 900}]


REPLAY = {"module": "c07", "task": "replay"}
