"""C12 - density, natural density, isotope substitution and cell volume are consistent."""
from contracts import formulas as F

from contracts import wrappers as W
from contracts import core as K
from contracts import grammar as G_PF
from contracts import formulas as F_DEP
from contracts import density as D_DEP
from contracts import core as K_DEP
ID = "C12"
LEVEL = "proof"
TRUSTED = ["A1 real arithmetic", "A3 builtins", "A5 attribute resolution", "A6 solvers"]
EXPLANATION = ('Deductive: natural_mass_ratio (loop over atoms cut at two SumOver invariants; ions and isotope ions), the natural_density getter/setter pair (density = natural density / ratio and back), Formula.__init__ (density precedence, single-atom default), util.cell_volume (all parameter forms, defaulted angles, TypeError without lengths), Formula.volume (packing-factor and lattice routes), formula() for every kind of initializer with density= or natural_density= (the keyword reaches Formula.__init__ / the parsed object), _isotope_substitution (counts, density scales with the mass, unknown density stays unknown) and Formula.replace are executed from the working tree. Bounded tasks re-check density / replace / volume natively, including assignment orders on one object and the special-angle grid.')


def units(tier):
    return (([F.U_ION_MASS, F.U_NAT_RATIO, F.U_NATDENS_GET, F.U_NATDENS_SET] + F.U_INIT + F.U_CELL_VOLUME + [F.U_CELL_VOLUME_MISSING] + F.U_VOLUME + [F.U_SUBSTITUTION] + F.U_FORMULA_OF_FORMULA) + W.U_FORMULA_REPLACE) + [K.L_ATOM_IDENTITY] + F.U_FORMULA_KINDS_NATURAL + F.U_FORMULA_STRING + G_PF.U_PARSE_FORMULA + ([F_DEP.U_COUNT_ATOMS, F_DEP.U_ATOMS]) + ([D_DEP.U_DENSITY_EL, D_DEP.U_DENSITY_ISO, K_DEP.L_REGISTRATION])


def runner_tasks(tier):
    return [{"module": "c12", "task": "density", "kind": "bounded", "clause": "density / natural density by keyword, attribute, tag"},
            {"module": "c12", "task": "replace", "kind": "bounded", "clause": "substitution"},
            {"module": "c12", "task": "volume", "kind": "bounded", "clause": "volume estimates"},
            {"module": "stateful", "task": "C12", "name": "stateful", "kind": "bounded", "clause": "assignment order density / natural density on one object; single-atom default density in every spelling; keyword for every initializer kind; private tables with customised masses"},
            {"module": "independence", "task": "observations", "name": "independence", "kind": "bounded", "arg": {"tags": ["C12"]}, "clause": "fixed observations give the same value as the first use of the library in a fresh interpreter, in a warmed-up interpreter (twice) and in reverse order, and have their documented value", "timeout": 900}]


REPLAY = {'module': 'c12', 'task': 'replay'}
