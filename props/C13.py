"""C13 - printing a formula and parsing it back gives the same formula."""
from contracts import grammar as G

from contracts import core as K
from contracts import density as D_DEP
from contracts import core as K_DEP
ID = "C13"
LEVEL = "other"
TRUSTED = ["A4 pyparsing", "A6 solvers", "reference reading of the grammar (runner/ref_formula.py, written from the documentation)"]
EXPLANATION = ("Deductive: the token languages the printer must hit (count, isotope tag, ion tag) are the documented ones "
               "(grammar.tokens, z3 regex). Bounded: round trip print -> parse on formulas produced by parsing, by formula "
               "arithmetic and by the mixture constructors, counts over 1e-9..1e12, D/T, ions, isotope ions. The string-building "
               "code of _str_atoms ('%g' formatting) is outside the symbolic subset; its per-fragment contract is checked at run "
               "time by the round trip.")


def units(tier):
    return ([G.L_TOKENS] + G.U_STR_ATOMS) + [K.L_ATOM_IDENTITY] + G.U_PARSE_FORMULA + ([D_DEP.U_DENSITY_EL, D_DEP.U_DENSITY_ISO, K_DEP.L_REGISTRATION])


def runner_tasks(tier):
    return [{"module": "c13", "task": "roundtrip", "kind": "bounded", "clause": "print/parse round trip, repr, names"},
            {"module": "stateful", "task": "C13", "name": "stateful C13", "kind": "bounded", "clause": "print -> parse after other parses of the same text were edited by their owners; counts just below one; trace counts"},
            {"module": "independence", "task": "observations", "name": "independence", "kind": "bounded", "arg": {"tags": ["C13"]}, "clause": "fixed observations give the same value as the first use of the library in a fresh interpreter, in a warmed-up interpreter (twice) and in reverse order, and have their documented value", "timeout": 900}]


REPLAY = {"module": "c13", "task": "replay"}
