"""C01 - a formula string denotes exactly the composition its documented grammar says."""
from contracts import grammar as G
from contracts import formulas as F
from contracts import core as K

from contracts import wrappers as W
from contracts import density as D_DEP
from contracts import core as K_DEP
ID = "C01"
LEVEL = "other"
TRUSTED = ["A3 int()/float() of a token", "A4 pyparsing PEG semantics and the parse-action splice protocol",
           "A6 solvers (z3 regex/strings, cvc5 for unknowns)", "A7 the EBNF block of formula_grammar.rst is parsed mechanically; "
           "the three documented-ambiguity amendments are listed in DESIGN.md C01"]
EXPLANATION = ("Deductive: token languages of the code's regex literals equal the documented terminals (z3 regex equivalence); "
               "production shapes (order/presence of components, required density count) read from the AST; each parse action "
               "(symbol/isotope/ion/count lambdas, convert_element/implicit/explicit/compound, _immutable) and _count_atoms, "
               "Formula.atoms/charge, the table lookups are discharged for all tokens. The induction over PEG derivations is a "
               "stated meta-argument. Recognition by pyparsing itself is observed by the bounded task 'recognition' (reference "
               "recogniser written from the documentation, exhaustive by derivation shape to depth 3 + malformations).")


def units(tier):
    return (([G.L_TOKENS, G.L_SHAPES, G.L_NO_SHARED_DEFAULTS, G.U_ACT_SYMBOL, G.U_ACT_ISOTOPE, G.U_ACT_ION, G.U_ACT_FRACT, G.U_ACT_WHOLE,
             G.U_CONVERT_ELEMENT] + G.U_CONVERT_IMPLICIT + G.U_CONVERT_EXPLICIT + G.U_CONVERT_COMPOUND +
            [G.U_IMMUTABLE] + G.U_PARSE_FORMULA + [F.U_IMMUTABLE_REC, F.L_DEN_CONGRUENCE, F.U_COUNT_ATOMS, F.U_ATOMS, F.U_CHARGE, K.U_SYMBOL, K.U_EL_GETITEM, K.U_IONSET]) + [W.U_PKG[0]]) + [K.L_ATOM_IDENTITY] + ([D_DEP.U_DENSITY_EL, D_DEP.U_DENSITY_ISO, K_DEP.L_REGISTRATION])


def runner_tasks(tier):
    return [{"module": "c01", "task": "recognition", "kind": "bounded", "clause": "whole-string recognition and rejection"},
            {"module": "stateful", "task": "C01", "name": "stateful", "kind": "bounded", "clause": "private table with customised data (masses, isotopes, densities, ion lists edited after first use): formulas parsed with table=T use T's atoms and data; every parse is a new formula"},
            {"module": "stateful", "task": "identity", "name": "atom identity", "kind": "bounded", "clause": "different atoms are unequal, distinct dictionary keys, kept apart by formulas"},
            {"module": "independence", "task": "observations", "name": "independence", "kind": "bounded", "arg": {"tags": ["C01"]}, "clause": "fixed observations give the same value as the first use of the library in a fresh interpreter, in a warmed-up interpreter (twice) and in reverse order, and have their documented value", "timeout": 900}]


REPLAY = {"module": "c01", "task": "replay"}
