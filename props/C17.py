"""C17 - the composite SLD calculator equals the direct calculation on the weighted sum."""
from contracts import nsf as N
from contracts import formulas as F

from contracts import formulas as F_DEP
from contracts import core as K_DEP
ID = "C17"
LEVEL = "other"
TRUSTED = [
    "A1 real arithmetic (float re-check: bounded task 'sample')",
    "A2 numpy: np.array/np.sum(axis=0)/a[:, None] broadcasting along the materials axis, element-wise ufuncs",
    "A6 z3/cvc5 are sound",
    "exchange of the double sum over materials and atoms (linearity of finite sums) is used as a stated lemma",
]
EXPLANATION = ("Deductive: _sum_piece's loop is proved equal to the four documented sums for any compound; _compute (the nested "
               "function, extracted from neutron_composite_sld) is proved equal to the documented equations on the weighted sums "
               "for 1, 2 and 3 materials with arbitrary weights/density (material count bounded at 3: the numpy reductions are "
               "unrolled; everything else unbounded), including the zero cases; the direct side, neutron_scattering, is proved equal to the same documented equations (None only when an atom has no neutron data). Bounded 'sample' compares the calculator with "
               "neutron_sld(sum w_i m_i) natively for lists up to 6 materials, scalar/vector wavelengths.")


def units(tier):
    return (([N.U_SUM_PIECE, N.U_COMPUTE_1, N.U_COMPUTE_2, N.U_COMPUTE_3, F.L_SUM_HOMOGENEOUS, N.L_SUM_POSITIVE]) + N.U_COMPOSITE_OUTER) + F.U_FORMULA_OF_FORMULA + F.U_INIT + [N.U_NS_WAVELENGTH, N.U_NS_DEFAULT] + ([K_DEP.L_ATOM_IDENTITY] + [F_DEP.U_COUNT_ATOMS, F_DEP.U_ATOMS]) + ([F_DEP.U_RMUL, F_DEP.U_IADD])


def runner_tasks(tier):
    return [{"module": "c17", "task": "sample", "kind": "bounded", "clause": "calculator vs direct neutron_sld and documented equations"},
            {"module": "stateful", "task": "C17", "name": "stateful", "kind": "bounded", "clause": "tiny non-zero weights / densities are not the zero case; repeated objects; typed wavelength vectors; weight vector refilled in place between calls"},
            {"module": "independence", "task": "observations", "name": "independence", "kind": "bounded", "arg": {"tags": ["C17"]}, "clause": "fixed observations give the same value as the first use of the library in a fresh interpreter, in a warmed-up interpreter (twice) and in reverse order, and have their documented value", "timeout": 900}]


REPLAY = {'module': 'c17', 'task': 'replay'}
