"""C15 - decay_time returns the time at which total activity reaches the target."""
ID = "C15"
LEVEL = "other"
TRUSTED = ["oracle: A(t) = sum_i A_i(0) 2^(-t/T_i) recomputed from Sample.activity with an independent reader of the half-lives"]
EXPLANATION = "see DESIGN.md C15"


def units(tier):
    return []


def runner_tasks(tier):
    return [{"module": "c15", "task": "sample", "kind": "bounded", "clause": "samples x rest lists x targets"}]


REPLAY = {"module": "c15", "task": "replay"}
