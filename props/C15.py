"""C15 - decay_time returns the time at which total activity reaches the target."""
from contracts import activation as A

from contracts import activation as ACTV
ID = "C15"
LEVEL = "other"
TRUSTED = ["oracle: A(t) = sum_i A_i(0) 2^(-t/T_i) recomputed from Sample.activity with an independent reader of the half-lives"]
EXPLANATION = ("Deductive: find_root (returns (x, f(x)); ZeroDivisionError only where the derivative vanishes), Sample.decay_time for 1-2 rest times and two products with activities >= 0 (t >= 0; 0 exactly when the activity at removal is at or below the target; otherwise within 0.1% or RuntimeError, no other exception; independent of which rest time is the reference), the empty case, and df == d/dt f for the closures (sympy). Convergence of Newton's iteration is not claimed: the bounded sampler runs the real solver on real samples, rest lists and targets.")


def units(tier):
    return ([A.U_FIND_ROOT] + A.U_DECAY_TIME + [A.U_DECAY_TIME_EMPTY, A.L_DF]) + ACTV.U_SAMPLE_INIT + [A.U_CALC_ACTIVATION]


def runner_tasks(tier):
    return [{"module": "c15", "task": "sample", "kind": "bounded", "clause": "samples x rest lists x targets"},
            {"module": "c14", "task": "table_columns", "kind": "eval", "clause": "activation.dat: every row's half-life in hours (the column decay_time uses) is its listed half-life; loaded records are the rows"},
            {"module": "stateful", "task": "C15", "name": "stateful", "kind": "bounded", "clause": "decay_time on a recalculated Sample; weakly activated samples"},
            {"module": "independence", "task": "observations", "name": "independence", "kind": "bounded", "arg": {"tags": ["C15"]}, "clause": "fixed observations give the same value as the first use of the library in a fresh interpreter, in a warmed-up interpreter (twice) and in reverse order, and have their documented value", "timeout": 900}]


REPLAY = {"module": "c15", "task": "replay"}
