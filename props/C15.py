"""C15 - decay_time returns the time at which total activity reaches the target."""
from contracts import activation as A

from contracts import activation as ACTV
ID = "C15"
LEVEL = "other"
TRUSTED = ["oracle: A(t) = sum_i A_i(0) 2^(-t/T_i) recomputed from Sample.activity with an independent reader of the half-lives"]
EXPLANATION = "see DESIGN.md C15"


def units(tier):
    return ([A.U_FIND_ROOT] + A.U_DECAY_TIME + [A.U_DECAY_TIME_EMPTY, A.L_DF]) + ACTV.U_SAMPLE_INIT


def runner_tasks(tier):
    return [{"module": "c15", "task": "sample", "kind": "bounded", "clause": "samples x rest lists x targets"},
            {"module": "stateful", "task": "C15", "name": "stateful", "kind": "bounded", "clause": "decay_time on a recalculated Sample; weakly activated samples"}]


REPLAY = {"module": "c15", "task": "replay"}
