"""C05 - x-ray factors, SLD and refraction follow the tables and documented equations."""
from contracts import ancillary as A
from contracts import core as K
from contracts import formulas as F

from contracts import wrappers as W
from contracts import formulas as F_DEP
from contracts import core as K_DEP
ID = "C05"
LEVEL = "other"
TRUSTED = ["A1 real arithmetic", "A2 numpy.interp(left=nan,right=nan), element-wise ufuncs, complex sqrt principal branch",
           "A6 solvers", "A7 independent reader of the .nff files and of f0_WaasKirf.dat (runner/c05.py)"]
EXPLANATION = ("Deductive: xray_wavelength/xray_energy (E*lambda == hc 1e7, round trip), Xray.scattering_factors (which table "
               "columns are interpolated, on which axis, NaN outside, TypeError without argument), xray_sld (loop cut at SumOver "
               "invariants; documented equation; ValueError without a table; empty formula) and index_of_refraction. Closed "
               "families: every node of every .nff table and every f0 entry (exhaustive). Bounded: compounds sample, mirror "
               "reflectivity in [0,1], CromerMann matrix code on a Q grid.")


def units(tier):
    return (([A.U_XWAVELENGTH, A.U_XENERGY, A.U_XROUNDTRIP] + A.U_SCATTERING_FACTORS + A.U_XRAY_SLD + A.U_INDEX_OF_REFRACTION + A.U_FXRAY_KEYS + [F.U_FORMULA_XRAY_SLD, K.L_REGISTRATION]) + [W.U_PKG[5], W.U_FROM_ATOMS[1], A.U_FXRAYATQ, A.U_XRAY_F0, A.U_XRAY_ELEMENT_SYMBOL, A.U_XRAY_SLD_METHOD]) + F.U_FORMULA_OF_FORMULA + F.U_INIT + ([K_DEP.L_ATOM_IDENTITY] + [F_DEP.U_COUNT_ATOMS, F_DEP.U_ATOMS])


def runner_tasks(tier):
    return [{"module": "c05", "task": "tables", "kind": "eval", "clause": "f1/f2 at and between all table nodes; NaN outside"},
            {"module": "c05", "task": "f0", "kind": "eval", "clause": "f0 coefficients and limits, all 211 entries"},
            {"module": "c05", "task": "sld", "kind": "bounded", "clause": "compound SLD, relations, reflectivity"},
            {"module": "c09", "task": "steps", "name": "first-touch steps", "kind": "eval", "arg": {"groups": ["xray"]}, "clause": "every first touch of the x-ray data serves the canonical data", "timeout": 1500},
            {"module": "stateful", "task": "C05", "name": "stateful C05", "kind": "bounded", "clause": "energy / wavelength / Q in every numeric type and array layout; f0 of tabulated atoms unchanged after requests for ions without coefficients"},
            {"module": "independence", "task": "observations", "name": "independence", "kind": "bounded", "arg": {"tags": ["C05"]}, "clause": "fixed observations give the same value as the first use of the library in a fresh interpreter, in a warmed-up interpreter (twice) and in reverse order, and have their documented value", "timeout": 900}]


REPLAY = {"module": "c05", "task": "replay"}
