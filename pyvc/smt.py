"""Discharge obligations: one process per query, z3 first, cvc5 takes z3's unknowns
(and re-checks everything in thorough tier)."""
import os
import subprocess
import tempfile
import time
from concurrent.futures import ProcessPoolExecutor

PI_DECL = "(declare-fun pi () Real)"
PI_AXIOM = "(assert (and (> pi 3.14159265358) (< pi 3.14159265359)))"


def _with_pi(smt2):
    if "(declare-fun pi () Real)" in smt2:
        return smt2.replace("(check-sat)", PI_AXIOM + "\n(check-sat)")
    return smt2


def _z3_solve(smt2, timeout_ms, want_model):
    import z3
    t0 = time.time()
    try:
        s = z3.Solver()
        s.set("timeout", timeout_ms)
        s.from_string(smt2)
        r = s.check()
        status = str(r)
        model = None
        if r == z3.sat and want_model:
            m = s.model()
            model = {}
            for d in m.decls():
                try:
                    model[d.name()] = str(m[d])
                except Exception:
                    pass
        reason = s.reason_unknown() if r == z3.unknown else ""
        return status, model, time.time() - t0, reason
    except Exception as e:   # z3 internal error: undecided, never a verdict
        return "unknown", None, time.time() - t0, "z3 error: %s" % e


def _cvc5_solve(smt2, timeout_ms, want_model):
    t0 = time.time()
    text = smt2
    if "(set-logic" not in text:
        text = "(set-logic ALL)\n" + text
    if want_model:
        text = "(set-option :produce-models true)\n" + text + "\n(get-model)\n"
    fd, path = tempfile.mkstemp(suffix=".smt2", dir=os.environ.get("VERIF_SCRATCH", "/var/tmp"))
    try:
        with os.fdopen(fd, "w") as fh:
            fh.write(text)
        try:
            p = subprocess.run(["/usr/bin/cvc5", "--strings-exp", "--tlimit=%d" % timeout_ms, path],
                               capture_output=True, text=True, timeout=timeout_ms / 1000.0 + 5)
        except subprocess.TimeoutExpired:
            return "unknown", None, time.time() - t0, "cvc5 timeout"
        out = p.stdout.strip().split("\n")
        status = out[0].strip() if out else "unknown"
        if status not in ("sat", "unsat"):
            return "unknown", None, time.time() - t0, (p.stdout + p.stderr)[:300]
        model = {"__raw__": "\n".join(out[1:])[:4000]} if (status == "sat" and want_model) else None
        return status, model, time.time() - t0, ""
    finally:
        try:
            os.unlink(path)
        except OSError:
            pass


def solve_one(job):
    smt2, timeout_ms, want_model, use_cvc5, both = job
    status, model, t, reason = _z3_solve(smt2, timeout_ms, want_model)
    backend = "z3"
    extra = None
    if status == "unknown" and use_cvc5:
        s2, m2, t2, r2 = _cvc5_solve(smt2, timeout_ms, want_model)
        t += t2
        if s2 in ("sat", "unsat"):
            status, backend, reason = s2, "cvc5", ""
            if m2 is not None:
                model = m2
        else:
            reason = (reason + " | cvc5: " + r2)[:400]
    elif both and status in ("sat", "unsat"):
        s2, m2, t2, r2 = _cvc5_solve(smt2, timeout_ms, False)
        extra = {"cvc5": s2, "cvc5_time": t2}
        if s2 in ("sat", "unsat") and s2 != status:
            status = "conflict"
            reason = "z3=%s cvc5=%s" % (status, s2)
    return status, model, t, backend, reason, extra


_POOL = None


def pool(workers=None):
    global _POOL
    if _POOL is None:
        _POOL = ProcessPoolExecutor(max_workers=workers or int(os.environ.get("VERIF_WORKERS", "14")))
    return _POOL


def discharge(obligations, timeout_ms=10000, use_cvc5=True, both=False):
    """solve all obligations; sets status/backend/model/time on each"""
    jobs = []
    for ob in obligations:
        jobs.append((ob.smt2(), timeout_ms, True, use_cvc5, both))
    results = list(pool().map(solve_one, jobs, chunksize=1)) if jobs else []
    for ob, (status, model, t, backend, reason, extra) in zip(obligations, results):
        ob.time_s = t
        ob.backend = backend
        ob.reason = reason
        ob.extra = extra
        if ob.expect_sat:
            # cover / canary: must be satisfiable
            if status == "sat":
                ob.status = "discharged"
            elif status == "unsat":
                ob.status = "vacuous"
            else:
                ob.status = "unknown"
        else:
            if status == "unsat":
                ob.status = "discharged"
            elif status == "sat":
                ob.status = "sat"
                ob.model = model
            elif status == "conflict":
                ob.status = "conflict"
            else:
                ob.status = "unknown"
    return obligations
