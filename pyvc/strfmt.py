"""'%<flags><width>d' % n for a symbolic integer n (A3: CPython's printf-style integer conversion).
Supported: flags '+' and ' ' (sign), width <= 12, no '-', '0', '#' flags, no precision."""
import re
import z3

from .values import Unsupported

_POW = [10 ** k for k in range(1, 19)]


def ndigits(m):
    """number of decimal digits of a non-negative integer term m (< 10**18)"""
    e = z3.IntVal(19)
    for k in range(18, 0, -1):
        e = z3.If(m < _POW[k - 1], z3.IntVal(k), e)
    return e


def spaces(k, maxw):
    """k blanks for an integer term k; k <= 0 gives the empty string (k <= maxw)"""
    e = z3.StringVal(" " * maxw)
    for j in range(maxw - 1, -1, -1):
        e = z3.If(k <= j, z3.StringVal(" " * j), e)
    return e


def pad_int(interp, st, spec, n):
    m = re.match(r"^%([-+ 0#]*)(\d*)([di])$", spec)
    if not m:
        raise Unsupported("format %r" % spec)
    flags, width, _ = m.groups()
    if any(c in flags for c in "-0#"):
        raise Unsupported("format flag in %r" % spec)
    width = int(width or 0)
    if width > 12:
        raise Unsupported("format width in %r" % spec)
    interp.assumed.add("A3 '%s' %% int: sign, decimal digits, right-aligned with blanks to the width" % spec)
    pos = "+" if "+" in flags else (" " if " " in flags else "")
    absn = z3.If(n < 0, -n, n)
    sign = z3.If(n < 0, z3.StringVal("-"), z3.StringVal(pos))
    signlen = z3.If(n < 0, 1, len(pos))
    body = z3.Concat(sign, z3.IntToStr(absn))
    if width == 0:
        return body
    return z3.Concat(spaces(width - signlen - ndigits(absn), width), body)
