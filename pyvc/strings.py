"""String support: concrete strings exactly; z3 strings for a few operations
(A3: the str methods used have their documented meaning)."""
from fractions import Fraction
import z3

from .values import *   # noqa
from .values import (Unsupported, PyRaise, Cx, VTuple, VList, VDict, VMap, VObj, VSym, VStr,
                     VExcInstance)

INT_OF_STR = z3.Function("int_of_str", z3.StringSort(), z3.IntSort())


def _raise(exc, msg=None, node=None):
    raise PyRaise(exc, msg, getattr(node, "lineno", None))


def S(v):
    return z3.StringVal(v) if isinstance(v, str) else v


def is_sym_str(v):
    return is_z3(v) and z3.is_string(v)


DIGITS = z3.Plus(z3.Range("0", "9"))


def int_of_str(interp, st, s):
    """int(s) for a symbolic string (A3): defined for optional sign + digits (whitespace/underscore
    forms are not modelled: they raise ValueError here as for any other text)."""
    ok = z3.InRe(s, z3.Concat(z3.Option(z3.Union(z3.Re("+"), z3.Re("-"))), DIGITS))
    plain = z3.InRe(s, DIGITS)
    if st.branch(plain):
        return z3.StrToInt(s)
    if st.branch(ok):
        body = z3.SubString(s, 1, z3.Length(s) - 1)
        neg = z3.PrefixOf(z3.StringVal("-"), s)
        return z3.If(neg, -z3.StrToInt(body), z3.StrToInt(body))
    interp.assumed.add("A3 int(str): only [+-]?[0-9]+ accepted (no whitespace/underscore forms)")
    _raise("ValueError", "invalid literal for int()")


def str_of_int(interp, st, n):
    return z3.If(n >= 0, z3.IntToStr(n), z3.Concat(z3.StringVal("-"), z3.IntToStr(-n)))


def format_percent(interp, st, fmt, arg, node):
    fmt = interp.resolve(st, fmt)
    arg = interp.resolve(st, arg)
    if not isinstance(fmt, str):
        return VStr("format")
    args = arg.items if isinstance(arg, VTuple) else [arg]
    if isinstance(arg, VDict):
        return VStr("format%dict")
    # split the format into literal pieces and conversion specs
    import re
    pieces = re.split(r"(%[-+ 0#]*\d*(?:\.\d+)?[sdigfer%])", fmt)
    out = []
    ai = 0
    symbolic = False
    for p in pieces:
        if p.startswith("%") and len(p) >= 2:
            conv = p[-1]
            if conv == "%":
                out.append("%")
                continue
            if ai >= len(args):
                _raise("TypeError", "not enough arguments for format string", node)
            a = interp.resolve(st, args[ai])
            ai += 1
            if conv in "dig fe".replace(" ", ""):
                if not (is_num(a)):
                    _raise("TypeError", "%%%s format: a real number is required" % conv, node)
            if conv == "s":
                if isinstance(a, str):
                    out.append(p.replace("s", "s") % a if p != "%s" else a)
                elif is_sym_str(a) and p == "%s":
                    out.append(a)
                    symbolic = True
                elif isinstance(a, int) and not isinstance(a, bool):
                    out.append(p % a)
                else:
                    return VStr("format")
            elif conv in "di":
                if isinstance(a, int):
                    out.append(p % a)
                elif is_z3(a) and z3.is_int(a) and p in ("%d", "%i"):
                    out.append(str_of_int(interp, st, a))
                    symbolic = True
                elif is_z3(a) and z3.is_int(a):
                    from . import strfmt
                    out.append(strfmt.pad_int(interp, st, p, a))
                    symbolic = True
                else:
                    return VStr("format")
            else:
                if is_concrete_num(a):
                    out.append(p % float(a))
                else:
                    return VStr("format")
        else:
            if p:
                out.append(p)
    if ai < len(args) and not isinstance(arg, VDict):
        _raise("TypeError", "not all arguments converted during string formatting", node)
    if not symbolic:
        return "".join(out)
    exprs = [S(x) for x in out]
    return z3.Concat(*exprs) if len(exprs) > 1 else exprs[0]


def slice_(interp, st, s, lo, hi, step):
    if step is not None:
        raise Unsupported("string slice with step")
    n = z3.Length(s)

    def norm(x, default):
        if x is None:
            return default
        if isinstance(x, int):
            if x < 0:
                return z3.If(n + x < 0, z3.IntVal(0), n + x)
            return z3.If(z3.IntVal(x) > n, n, z3.IntVal(x))
        raise Unsupported("symbolic string slice bound")
    a = norm(lo, z3.IntVal(0))
    b = norm(hi, n)
    return z3.SubString(s, a, z3.If(b - a < 0, z3.IntVal(0), b - a))


def index_(interp, st, s, idx, node):
    n = z3.Length(s)
    if isinstance(idx, int):
        pos = z3.IntVal(idx) if idx >= 0 else n + idx
        if st.branch(z3.Or(pos < 0, pos >= n)):
            _raise("IndexError", "string index out of range", node)
        return z3.SubString(s, pos, 1)
    raise Unsupported("symbolic string index")


def str_method(interp, st, s, name, args, kwargs, node):
    # concrete tuples of strings (startswith/endswith with alternatives)
    args = [tuple(a.items) if isinstance(a, VTuple) and all(isinstance(x, str) for x in a.items) else a for a in args]
    if isinstance(s, str) and all(isinstance(a, (str, int, tuple)) or a is None for a in args):
        if name in ("split", "strip", "lstrip", "rstrip", "lower", "upper", "capitalize", "startswith",
                    "endswith", "replace", "isdigit", "isalpha", "find", "title", "join"):
            if name == "join":
                items = interp.iterate_concrete(st, interp.resolve(st, args[0]))
                if all(isinstance(x, str) for x in items):
                    return s.join(items)
            else:
                r = getattr(s, name)(*args)
                if isinstance(r, list):
                    return VList(r)
                return r
    if name == "join":
        items = [interp.resolve(st, x) for x in interp.iterate_concrete(st, interp.resolve(st, args[0]))]
        if any(isinstance(x, VStr) for x in items):
            return VStr("join")
        if all(isinstance(x, str) or is_sym_str(x) for x in items) and isinstance(s, str):
            parts = []
            for i, x in enumerate(items):
                if i and s:
                    parts.append(S(s))
                parts.append(S(x))
            if not parts:
                return ""
            return z3.Concat(*parts) if len(parts) > 1 else parts[0]
        _raise("TypeError", "sequence item: expected str instance", node)
    if is_sym_str(s):
        if name in ("rstrip", "strip", "lstrip") and not args:
            # opaque: the stripped text (A3); the contracts use the same function
            interp.assumed.add("A3 str.%s(): uninterpreted function of the text" % name)
            return z3.Function("str_" + name, z3.StringSort(), z3.StringSort())(s)
        if name == "startswith" and isinstance(args[0], str):
            return z3.PrefixOf(z3.StringVal(args[0]), s)
        if name == "endswith" and isinstance(args[0], str):
            return z3.SuffixOf(z3.StringVal(args[0]), s)
        if name == "lower":
            ghost = st.ghost.get("str_lower")
            if ghost:
                return ghost(interp, st, s)
        if name == "isdigit" and not args:
            # ASCII digits only (A3): the embedded tables are ASCII
            interp.assumed.add("A3 str.isdigit(): non-empty and all characters in 0-9 (ASCII text)")
            return z3.InRe(s, DIGITS)
        if name == "capitalize" and not args:
            interp.assumed.add("A3 str.capitalize(): uninterpreted function of the text")
            return z3.Function("str_capitalize", z3.StringSort(), z3.StringSort())(s)
        if name == "split":
            sp = st.ghost.get("str_split")
            if sp:
                return sp(interp, st, s, args)
        if name == "replace" and len(args) == 2 and all(isinstance(a, str) for a in args):
            return z3.Function("str_replace_%s" % "_".join("%02x" % ord(c) for c in args[0] + "|" + args[1]),
                               z3.StringSort(), z3.StringSort())(s)
    raise Unsupported("str method %s on symbolic string" % name)
