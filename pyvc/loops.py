"""Loops over symbolic collections are cut at their loop contract.

A loop contract (sidecar, keyed by function target and loop ordinal) is a dict

    kind      'map'  : for k, v in M.items() / for k in M  (M a VMap); ghost visited-set V
              'seq'  : for x in S (S a symbolic sequence);  ghost index i
    define    {var: fn(E)}   exact-value invariants   var == fn(ghost state)
    invariant fn(E) -> [(name, formula)]   further facts (may be quantified)
    havoc     {var: fn(E, st) -> value}     shapes for modified variables not in `define`

E gives .V or .i (ghost), .old[var] (values at loop entry), .cur[var] (current values), .it (the
collection), .st, .interp.

Three-way fork: establish+preserve path (ends in a cut), and the exit path.  Dict loops use a ghost
visited set, so no proof can depend on iteration order.
"""
import ast
import z3

from .values import *   # noqa
from .values import Unsupported, VMap, VSym, VTuple, Return, Break, Continue, Cx
from .interp import loops_Cut


class E:
    pass


def assigned_names(body):
    names = set()
    for stmt in body:
        for n in ast.walk(stmt):
            if isinstance(n, ast.Name) and isinstance(n.ctx, (ast.Store, ast.Del)):
                names.add(n.id)
    return names


class _Locals:
    """live view of the locals a loop contract may name: a name that the function's text does not bind at all means that the
    contract was written for another text (a renamed temporary): the contract does not apply - undecided, never a verdict"""

    def __init__(self, d, known, roles=None):
        self._d = d
        self._known = known
        self._roles = roles or {}

    def _chk(self, k):
        if self._known is not None and k not in self._known and k not in self._d:
            raise Unsupported("loop contract names the local %r, which this function's text does not bind "
                              "(renamed temporary?): the contract does not apply" % k)

    def get(self, k, default=None):
        k = self._roles.get(k, k)
        self._chk(k)
        return self._d.get(k, default)

    def __getitem__(self, k):
        k = self._roles.get(k, k)
        self._chk(k)
        return self._d[k]

    def __contains__(self, k):
        return self._roles.get(k, k) in self._d

    def __iter__(self):
        return iter(self._d)

    def keys(self):
        return self._d.keys()

    def items(self):
        return self._d.items()

    def values(self):
        return self._d.values()


def _roles(fr, lc):
    """role -> actual local name, computed from the function's AST by the contract's `names` resolver (so that a contract
    speaks about "the dictionary that is returned", "the loop's count variable", not about a spelling)"""
    fnres = lc.get("names")
    fn = getattr(fr, "func", None)
    node = getattr(getattr(fn, "ext", None), "node", None)
    if fnres is None or node is None:
        return {}
    try:
        return dict(fnres(node) or {})
    except Exception as e:      # the text no longer has the shape the resolver expects
        raise Unsupported("loop contract: cannot identify the roles of the locals in this text (%s)" % e)


def _bound_names(fr):
    fn = getattr(fr, "func", None)
    node = getattr(getattr(fn, "ext", None), "node", None)
    if node is None:
        return None
    names = set()
    for n in ast.walk(node):
        if isinstance(n, ast.Name) and isinstance(n.ctx, (ast.Store, ast.Del)):
            names.add(n.id)
        elif isinstance(n, ast.arg):
            names.add(n.arg)
    return names


def _mk_env(interp, st, fr, it, old, ghostname, ghost):
    e = E()
    e.interp = interp
    e.st = st
    e.it = it
    known = _bound_names(fr)
    roles = getattr(fr, "_loop_roles", {})
    e.old = _Locals(old, known, roles)
    e.cur = _Locals(fr.locals, known, roles)
    e._live = fr.locals
    e.closure = fr.closure
    setattr(e, ghostname, ghost)
    return e


def _check(interp, st, fr, lc, env, key, phase):
    from . import spec
    for var, fn in lc.get("define", {}).items():
        want = fn(env)
        if var not in fr.locals:
            # the contract speaks about a variable that does not exist at this loop: it was written for another loop / text
            raise Unsupported("loop contract: %r is not bound at loop %s of %s: the contract does not fit this loop" % (var, key[1], key[0]))
        have = fr.locals.get(var)
        st.oblige("%s.loop%s.%s.%s" % (key[0], key[1], phase, lc.get("_role_of", {}).get(var, var)),
                  spec.eq_goal(interp, st, have, want), kind="inv-" + phase)
    inv = lc.get("invariant")
    if inv:
        for name, f in inv(env):
            st.oblige("%s.loop%s.%s.%s" % (key[0], key[1], phase, name), spec.goal(st, f), kind="inv-" + phase)


def _install(interp, st, fr, lc, env, modified):
    """havoc modified variables and assume the invariant at the ghost state of env"""
    for var in modified:
        if var in lc.get("define", {}):
            continue
        hv = lc.get("havoc", {}).get(var)
        if hv is not None:
            fr.locals[var] = hv(env, st)
        else:
            if var not in fr.locals:
                continue      # first assigned inside the body: loop-local
            cur = fr.locals.get(var)
            fr.locals[var] = havoc_like(interp, st, var, cur)
    for var, fn in lc.get("define", {}).items():
        fr.locals[var] = fn(env)
    inv = lc.get("invariant")
    if inv:
        from . import spec
        for name, f in inv(env):
            st.assume(spec.assumption(f))


def havoc_like(interp, st, var, cur):
    if cur is None:
        raise Unsupported("cannot havoc %s (no shape; give a havoc entry in the loop contract)" % var)
    if isinstance(cur, bool) or (is_z3(cur) and z3.is_bool(cur)):
        return st.fresh(var + "_h", z3.BoolSort())
    if isinstance(cur, int) or (is_z3(cur) and z3.is_int(cur)):
        return st.fresh(var + "_h", z3.IntSort())
    if is_num(cur):
        return st.fresh(var + "_h", z3.RealSort())
    if isinstance(cur, Cx):
        return Cx(st.fresh(var + "_hre", z3.RealSort()), st.fresh(var + "_him", z3.RealSort()))
    if isinstance(cur, VSym):
        return VSym(st.fresh(var + "_h", cur.expr.sort()), cur.theory)
    if isinstance(cur, VMap):
        return VMap(st.fresh(var + "_hdom", cur.dom.sort()), st.fresh(var + "_hval", cur.val.sort()),
                    cur.ksort, cur.vsort, cur.wrap)
    raise Unsupported("cannot havoc %s of type %s" % (var, type(cur).__name__))


def _check_names(fr, lc):
    known = _bound_names(fr)
    if known is None:
        return
    for var in list(lc.get("define", {})) + list(lc.get("mutates", [])) + list(lc.get("havoc", {})):
        if var not in known and var not in fr.locals:
            raise Unsupported("loop contract names the local %r, which this function's text does not bind "
                              "(renamed temporary?): the contract does not apply" % var)


def for_loop(interp, st, fr, node, it, lc, key):
    from .shims import MapItems
    if node.orelse:
        raise Unsupported("for/else")
    roles = _roles(fr, lc)
    if roles:
        lc = dict(lc)
        for k in ("define", "havoc"):
            if k in lc:
                lc[k] = {roles.get(v, v): f for v, f in lc[k].items()}
        if "mutates" in lc:
            lc["mutates"] = [roles.get(v, v) for v in lc["mutates"]]
        lc["_role_of"] = {v: k for k, v in roles.items()}
    fr._loop_roles = roles
    _check_names(fr, lc)
    if lc.get("iter") is not None and ast.unparse(node.iter) not in (lc["iter"] if isinstance(lc["iter"], (list, tuple)) else [lc["iter"]]):
        raise Unsupported("loop contract written for `for ... in %s`, this loop iterates `%s`: the contract does not fit this loop"
                          % (lc["iter"], ast.unparse(node.iter)))
    modified = sorted(assigned_names(node.body) | assigned_names([ast.Expr(value=node.target)]) - set())
    tnames = set()
    for n in ast.walk(node.target):
        if isinstance(n, ast.Name):
            tnames.add(n.id)
    modified = [m for m in modified if m not in tnames]
    # in-place mutation of containers named in the contract
    modified = sorted(set(modified) | set(lc.get("mutates", [])))
    old = dict(fr.locals)
    if isinstance(it, MapItems) or isinstance(it, VMap):
        m = it.m if isinstance(it, MapItems) else it
        what = it.what if isinstance(it, MapItems) else "keys"
        ksort = m.ksort
        empty = z3.K(ksort, z3.BoolVal(False))
        which = st.choose(2, "loop")
        if which == 0:
            env0 = _mk_env(interp, st, fr, m, old, "V", empty)
            _check(interp, st, fr, lc, env0, key, "establish")
            V = st.fresh("V", z3.ArraySort(ksort, z3.BoolSort()))
            # (V is a subset of dom(M); only its consequence for the chosen key is needed, so the
            #  path condition stays quantifier-free and counter-models can be produced)
            env = _mk_env(interp, st, fr, m, old, "V", V)
            _install(interp, st, fr, lc, env, modified)
            k = st.fresh("k", ksort)
            st.assume(z3.And(z3.Select(m.dom, k), z3.Not(z3.Select(V, k))))
            st.cover("%s.loop%s.body-reachable" % key)
            kv = interp.map_wrap_key(m, k)
            vv = interp.map_wrap_val(m, z3.Select(m.val, k))
            item = {"items": VTuple([kv, vv]), "keys": kv, "values": vv}[what]
            interp.assign_target(st, fr, node.target, item)
            try:
                interp.exec_block(st, fr, node.body)
            except Continue:
                pass
            except Break:
                raise Unsupported("break in a contracted loop")
            V2 = z3.Store(V, k, z3.BoolVal(True))
            env2 = _mk_env(interp, st, fr, m, old, "V", V2)
            env2.k = k
            _check(interp, st, fr, lc, env2, key, "preserve")
            raise loops_Cut()
        else:
            env = _mk_env(interp, st, fr, m, old, "V", m.dom)
            _install(interp, st, fr, lc, env, modified)
            return
    if isinstance(it, VSym):
        th = it.theory
        n = th.len(interp, st, it)
        which = st.choose(2, "loop")
        if which == 0:
            env0 = _mk_env(interp, st, fr, it, old, "i", z3.IntVal(0))
            _check(interp, st, fr, lc, env0, key, "establish")
            i = st.fresh("i", z3.IntSort())
            st.assume(z3.And(i >= 0, i < n))
            env = _mk_env(interp, st, fr, it, old, "i", i)
            _install(interp, st, fr, lc, env, modified)
            st.cover("%s.loop%s.body-reachable" % key)
            item = th.item(interp, st, it, i)
            interp.assign_target(st, fr, node.target, item)
            try:
                interp.exec_block(st, fr, node.body)
            except Continue:
                pass
            except Break:
                raise Unsupported("break in a contracted loop")
            env2 = _mk_env(interp, st, fr, it, old, "i", i + 1)
            _check(interp, st, fr, lc, env2, key, "preserve")
            raise loops_Cut()
        else:
            env = _mk_env(interp, st, fr, it, old, "i", n)
            _install(interp, st, fr, lc, env, modified)
            return
    raise Unsupported("loop contract on %r" % type(it).__name__)


def while_loop(interp, st, fr, node, lc):
    """while loop with invariant (and variant): establish / preserve / exit"""
    key = interp.loop_key(fr, node)
    modified = sorted(assigned_names(node.body))
    old = dict(fr.locals)
    which = st.choose(2, "loop")
    env = _mk_env(interp, st, fr, None, old, "i", None)
    if which == 0:
        _check(interp, st, fr, lc, env, key, "establish")
        _install(interp, st, fr, lc, env, modified)
        c = interp.eval(st, fr, node.test)
        if not interp.truth(st, c):
            raise Infeasible()
        variant0 = lc["variant"](env) if "variant" in lc else None
        try:
            interp.exec_block(st, fr, node.body)
        except Continue:
            pass
        except Break:
            raise Unsupported("break in a contracted while loop")
        env2 = _mk_env(interp, st, fr, None, old, "i", None)
        _check(interp, st, fr, lc, env2, key, "preserve")
        if variant0 is not None:
            v1 = lc["variant"](env2)
            st.oblige("%s.loop%s.variant" % key, z3.And(to_z3num(v1) < to_z3num(variant0), to_z3num(variant0) >= 0) if True else True,
                      kind="inv-preserve")
        raise loops_Cut()
    else:
        _install(interp, st, fr, lc, env, modified)
        c = interp.eval(st, fr, node.test)
        if interp.truth(st, c):
            raise Infeasible()
        if node.orelse:
            interp.exec_block(st, fr, node.orelse)
        return
