"""Assumed contracts of builtins, math and numpy (DESIGN.md 2.7, A2/A3).

numpy arrays are handled by *index semantics*: every ufunc acts element-wise,
so a function applied to an array equals, at an arbitrary index i, the same
function applied to the i-th elements.  The interpreter therefore runs on the
element values; shape questions are decided by the native stand-ins.
"""
from fractions import Fraction
import z3

from .values import *   # noqa
from .values import (Unsupported, PyRaise, Cx, VTuple, VList, VDict, VMap, VOpt, VObj, VSym, VClass, VComp, VArrN, VArrTag,
                     VFunc, VBuiltin, VModule, VBoundMethod, VExcInstance, VStr, NAN, INF)

PI = z3.Real("pi")
PI_BOUNDS = z3.And(PI > z3.RealVal("3.14159265358"), PI < z3.RealVal("3.14159265359"))
SQRT_F = z3.Function("sqrt_fn", z3.RealSort(), z3.RealSort())
CBRT_F = z3.Function("cbrt_fn", z3.RealSort(), z3.RealSort())
EXP_F = z3.Function("exp_fn", z3.RealSort(), z3.RealSort())
LOG_F = z3.Function("log_fn", z3.RealSort(), z3.RealSort())
COSD_F = z3.Function("cos_radians", z3.RealSort(), z3.RealSort())
FLOAT_OF_STR = z3.Function("float_of_str", z3.StringSort(), z3.RealSort())


def _raise(exc, msg=None, node=None):
    raise PyRaise(exc, msg, getattr(node, "lineno", None))


def use_pi(st):
    if not st.ghost.get("pi_used"):
        st.ghost["pi_used"] = True
        st.assume(PI_BOUNDS)
    return PI


def sqrt_value(interp, st, x, node=None, numpy_mode=False):
    """principal square root: r >= 0 and r*r == x (x >= 0 required for math.sqrt)"""
    x = interp.resolve(st, x)
    if x is NAN:
        return NAN
    if isinstance(x, Cx):
        return csqrt_value(interp, st, x)
    if not is_num(x):
        _raise("TypeError", "sqrt of non-number", node)
    if is_concrete_num(x):
        if x < 0:
            if numpy_mode:
                return NAN
            _raise("ValueError", "math domain error", node)
        fx = Fraction(x)
        import math
        rn, rd = math.isqrt(fx.numerator), math.isqrt(fx.denominator)
        if rn * rn == fx.numerator and rd * rd == fx.denominator:
            return Fraction(rn, rd) if rd != 1 else rn
    ex = z3.simplify(to_real(x))
    neg = ex < 0
    if st.branch(neg):
        if numpy_mode:
            return NAN
        _raise("ValueError", "math domain error", node)
    r = SQRT_F(ex)
    key = ex.get_id()
    if key not in st.sqrt_cache:
        st.sqrt_cache[key] = r
        st.assume(z3.And(r >= 0, r * r == ex))
    interp.assumed.add("A3/A2 sqrt: principal root r>=0, r*r==x")
    return r


def csqrt_value(interp, st, x):
    """principal complex square root: s*s == x, Re s >= 0 (A2)"""
    re = st.fresh("csqrt_re", z3.RealSort())
    im = st.fresh("csqrt_im", z3.RealSort())
    xr, xi = to_real(x.re), to_real(x.im)
    st.assume(z3.And(re * re - im * im == xr, 2 * re * im == xi, re >= 0))
    interp.assumed.add("A2 numpy complex sqrt: principal branch (Re >= 0)")
    return Cx(re, im)


def cbrt_value(interp, st, x):
    ex = z3.simplify(to_real(x))
    r = CBRT_F(ex)
    key = ("cbrt", ex.get_id())
    if key not in st.sqrt_cache:
        st.sqrt_cache[key] = r
        st.assume(r * r * r == ex)
        st.assume(z3.Implies(ex > 0, r > 0))
        st.assume(z3.Implies(ex == 0, r == 0))
    return r


def exp_value(interp, st, x):
    x = interp.resolve(st, x)
    if is_concrete_num(x) and x == 0:
        return 1
    ex = z3.simplify(to_real(x))
    r = EXP_F(ex)
    terms = st.uf_terms.setdefault("exp", {})
    if ex.get_id() not in terms:
        # axioms relating the new term to the ones already present
        st.assume(r > 0)
        st.assume(z3.Implies(ex == 0, r == 1))
        st.assume(z3.Implies(ex > 0, r > 1))
        st.assume(z3.Implies(ex < 0, r < 1))
        for (oe, orr) in terms.values():
            st.assume(z3.And(z3.Implies(ex < oe, r < orr), z3.Implies(ex > oe, r > orr),
                             z3.Implies(ex == oe, r == orr)))
        terms[ex.get_id()] = (ex, r)
    interp.assumed.add("A3 exp: positive, strictly monotone, exp(0)=1")
    return r


def log_value(interp, st, x, node=None):
    x = interp.resolve(st, x)
    ex = z3.simplify(to_real(x))
    if st.branch(ex <= 0):
        _raise("ValueError", "math domain error", node)
    r = LOG_F(ex)
    st.assume(z3.Implies(ex == 1, r == 0))
    st.assume(z3.Implies(ex > 1, r > 0))
    st.assume(z3.Implies(ex < 1, r < 0))
    # log is the inverse of exp on the terms present
    e = EXP_F(r)
    st.assume(e == ex)
    interp.assumed.add("A3 log: inverse of exp")
    return r


def abs_value(interp, st, x, node=None):
    x = interp.resolve(st, x)
    if x is NAN:
        return NAN
    if isinstance(x, Cx):
        s = num_add(num_mul(x.re, x.re), num_mul(x.im, x.im))
        return sqrt_value(interp, st, s, node)
    if is_concrete_num(x):
        return abs(x)
    if is_num(x):
        e = to_z3num(x)
        return z3.If(e >= 0, e, -e)
    _raise("TypeError", "bad operand type for abs()", node)


def max2(interp, st, a, b):
    if a is NAN or b is NAN:
        return NAN
    if is_concrete_num(a) and is_concrete_num(b):
        return a if a >= b else b
    ea, eb = to_z3num(a), to_z3num(b)
    if z3.is_int(ea) != z3.is_int(eb):
        ea, eb = to_real(ea), to_real(eb)
    return z3.If(ea >= eb, ea, eb)


def min2(interp, st, a, b):
    if is_concrete_num(a) and is_concrete_num(b):
        return a if a <= b else b
    ea, eb = to_z3num(a), to_z3num(b)
    if z3.is_int(ea) != z3.is_int(eb):
        ea, eb = to_real(ea), to_real(eb)
    return z3.If(ea <= eb, ea, eb)


# ------------------------------------------------------------------ builtins

def _b_len(interp, st, args, kw):
    v = interp.resolve(st, args[0])
    if isinstance(v, (VTuple, VList)):
        return len(v.items)
    if isinstance(v, VDict):
        return len(v.entries)
    if isinstance(v, str):
        return len(v)
    if is_z3(v) and z3.is_string(v):
        return z3.Length(v)
    if isinstance(v, VSym):
        return v.theory.len(interp, st, v)
    if isinstance(v, VMap):
        return card_of(interp, st, v)
    _raise("TypeError", "object has no len()")


_CARD = {}


def card_fn(ksort):
    key = str(ksort)
    if key not in _CARD:
        _CARD[key] = z3.Function("card_" + key, z3.ArraySort(ksort, z3.BoolSort()), z3.IntSort())
    return _CARD[key]


def card_of(interp, st, m):
    """number of keys of a finite map: uninterpreted except card >= 0, card == 0 iff empty,
    card == 1 iff exactly one key (the instances used by the code under contract)"""
    from . import spec as _spec
    dom = _spec.canon_array(st, m.dom)      # a lambda inside an uninterpreted function blocks counter-models
    c = card_fn(m.ksort)(dom)
    j = z3.Const("j!card", m.ksort)
    sel = lambda x: _spec.array_at(st, dom, x)
    w0, w1, w2 = (st.fresh("card_witness%d" % i, m.ksort) for i in range(3))
    st.assume(c >= 0)
    # skolemised characterisation: existential parts by witnesses (quantifier-free), universal parts quantified
    st.assume(z3.Implies(c == 0, z3.ForAll([j], z3.Not(z3.Select(dom, j)))))
    st.assume(z3.Implies(c != 0, sel(w0)))
    st.assume(z3.Implies(c == 1, z3.ForAll([j], z3.Implies(z3.Select(dom, j), j == w0))))
    st.assume(z3.Implies(c >= 2, z3.And(sel(w1), sel(w2), w1 != w2)))
    interp.assumed.add("A3 len(dict): cardinality of the key set (only ==0 and ==1 characterised)")
    return c


def _b_abs(interp, st, args, kw):
    return abs_value(interp, st, args[0])


def _b_isinstance(interp, st, args, kw):
    v = interp.resolve(st, args[0])
    c = args[1]
    classes = c.items if isinstance(c, VTuple) else [c]
    names = []
    for x in classes:
        if not isinstance(x, VClass):
            raise Unsupported("isinstance against non-class")
        names.append(x.name)
    if isinstance(v, VSym):
        return v.theory.isinstance(interp, st, v, names)
    tn = type_name(interp, v)
    for n in names:
        if tn == n or n == "object":
            return True
        if n == "float" and False:
            return True
        if isinstance(v, VObj):
            info = interp.obj_class(v)
            if info and n in info.bases:
                return True
    return False


def type_name(interp, v):
    if v is None:
        return "NoneType"
    if isinstance(v, bool) or (is_z3(v) and z3.is_bool(v)):
        return "bool"
    if isinstance(v, int) or (is_z3(v) and z3.is_int(v)):
        return "int"
    if isinstance(v, Fraction) or (is_z3(v) and z3.is_real(v)):
        return "float"
    if isinstance(v, (str, VStr)) or (is_z3(v) and z3.is_string(v)):
        return "str"
    if isinstance(v, VList):
        return "list"
    if isinstance(v, VTuple):
        return "tuple"
    if isinstance(v, (VDict, VMap)):
        return "dict"
    if isinstance(v, Cx):
        return "complex"
    if isinstance(v, VObj):
        return v.cls[1] if isinstance(v.cls, tuple) else v.cls
    return type(v).__name__


def _b_tuple(interp, st, args, kw):
    if not args:
        return VTuple([])
    v = interp.resolve(st, args[0])
    if isinstance(v, VSym):
        return v.theory.to_tuple(interp, st, v)
    return VTuple(interp.iterate_concrete(st, v))


def _b_list(interp, st, args, kw):
    if not args:
        return VList([])
    v = interp.resolve(st, args[0])
    if isinstance(v, VSym):
        return v.theory.to_list(interp, st, v)
    if isinstance(v, (VMap, MapItems)):
        m = v.m if isinstance(v, MapItems) else v
        what = v.what if isinstance(v, MapItems) else "keys"
        c = card_of(interp, st, m)
        if not st.feasible(c != 1):
            k = st.fresh("k_only", m.ksort)
            j = z3.Const("j!only", m.ksort)
            st.assume(z3.And(z3.Select(m.dom, k), z3.ForAll([j], z3.Implies(z3.Select(m.dom, j), j == k))))
            kv = interp.map_wrap_key(m, k)
            vv = interp.map_wrap_val(m, z3.Select(m.val, k))
            return VList([{"keys": kv, "values": vv, "items": VTuple([kv, vv])}[what]])
        raise Unsupported("list() of symbolic map with unknown size")
    return VList(interp.iterate_concrete(st, v))


def _b_dict(interp, st, args, kw):
    d = VDict()
    if args:
        v = interp.resolve(st, args[0])
        if isinstance(v, VComp):
            # dict((key, value) for key, m in M.items()): keys must be the keys of M themselves
            e = v.elt
            if isinstance(e, VTuple) and len(e.items) == 2 and isinstance(e.items[0], VSym) \
                    and z3.eq(e.items[0].expr, v.k) and is_num(e.items[1]):
                val = z3.Lambda([v.k], to_real(e.items[1]))
                return VMap(comp_domain(v), val, v.m.ksort, z3.RealSort(), v.m.wrap)
            raise Unsupported("dict() of a comprehension whose keys are not the iterated keys")
        if isinstance(v, VDict):
            d.entries = [[k, x] for k, x in v.entries]
        elif isinstance(v, VMap):
            return VMap(v.dom, v.val, v.ksort, v.vsort, v.wrap)
        else:
            for pair in interp.iterate_concrete(st, v):
                items = interp.iterate_concrete(st, pair)
                interp.dict_set(st, d, items[0], items[1])
    for k, x in kw.items():
        interp.dict_set(st, d, k, x)
    return d


def _b_float(interp, st, args, kw):
    v = interp.resolve(st, args[0]) if args else 0
    if isinstance(v, str):
        try:
            return Fraction(v.strip().replace("_", ""))
        except (ValueError, ZeroDivisionError):
            try:
                float(v)
                return Fraction(repr(float(v)))
            except ValueError:
                _raise("ValueError", "could not convert string to float")
    if is_num(v):
        if is_concrete_num(v):
            return Fraction(v)
        return to_real(v)
    if is_z3(v) and z3.is_string(v):
        interp.assumed.add("A3 float(str): opaque str->Real")
        return FLOAT_OF_STR(v)
    if v is None:
        _raise("TypeError", "float() argument must be a string or a number, not 'NoneType'")
    if isinstance(v, (VTuple, VList, VDict, VMap, VObj, VSym)):
        _raise("TypeError", "float() argument must be a string or a number")
    if isinstance(v, Cx):
        _raise("TypeError", "can't convert complex to float")
    raise Unsupported("float() of %r" % type(v).__name__)


def _b_int(interp, st, args, kw):
    v = interp.resolve(st, args[0]) if args else 0
    if isinstance(v, str):
        try:
            return int(v)
        except ValueError:
            _raise("ValueError", "invalid literal for int()")
    if isinstance(v, (int, bool)):
        return int(v)
    if isinstance(v, Fraction):
        return int(v)
    if is_z3(v) and z3.is_int(v):
        return v
    if is_z3(v) and z3.is_string(v):
        from . import strings
        return strings.int_of_str(interp, st, v)
    if v is None:
        _raise("TypeError", "int() argument None")
    raise Unsupported("int() of %r" % type(v).__name__)


def _b_str(interp, st, args, kw):
    v = interp.resolve(st, args[0]) if args else ""
    if isinstance(v, str):
        return v
    if isinstance(v, bool):
        return str(v)
    if isinstance(v, int):
        return str(v)
    if is_z3(v) and z3.is_string(v):
        return v
    if is_z3(v) and z3.is_int(v):
        from . import strings
        return strings.str_of_int(interp, st, v)
    if isinstance(v, VExcInstance):
        return v.msg if v.msg is not None else VStr("exc")
    return VStr("str(%s)" % type(v).__name__)


def comp_domain(c):
    dom = c.m.dom
    if c.conds:
        from .spec import _b
        dom = z3.Lambda([c.k], z3.And([z3.Select(c.m.dom, c.k)] + [_b(x) for x in c.conds]))
    return dom


def _b_sum(interp, st, args, kw):
    v = interp.resolve(st, args[0])
    total = args[1] if len(args) > 1 else 0
    if isinstance(v, VComp):
        from . import spec
        if not is_num(v.elt):
            raise Unsupported("sum of non-numeric comprehension")
        f = z3.Lambda([v.k], to_real(v.elt))
        r = spec.SumOver(st, comp_domain(v), f, v.m.ksort)
        return num_add(total, r)
    if isinstance(v, VSym):
        return v.theory.sum(interp, st, v, total)
    from ast import Add
    for x in interp.iterate_concrete(st, v):
        total = interp.binop(st, Add(), total, x)
    return total


def _b_minmax(which):
    def fn(interp, st, args, kw):
        if kw:
            if list(kw) != ["key"] or len(args) != 1:
                raise Unsupported("min/max with these keywords")
            items = interp.iterate_concrete(st, interp.resolve(st, args[0]))
            if not items:
                _raise("ValueError", "min()/max() arg is an empty sequence")
            keys = [interp.resolve(st, interp.call(st, kw["key"], [x], {})) for x in items]
            best, bk = items[0], keys[0]
            for x, k in zip(items[1:], keys[1:]):
                c = num_cmp("<" if which == "min" else ">", k, bk)     # first extremum wins, as in CPython
                if interp.truth(st, c):
                    best, bk = x, k
            return best
        if len(args) == 1:
            items = interp.iterate_concrete(st, interp.resolve(st, args[0]))
        else:
            items = list(args)
        if not items:
            _raise("ValueError", "min()/max() arg is an empty sequence")
        items = [interp.resolve(st, x) for x in items]
        r = items[0]
        for x in items[1:]:
            if not (is_num(r) and is_num(x)):
                raise Unsupported("min/max of non-numbers")
            r = (min2 if which == "min" else max2)(interp, st, r, x)
        return r
    return fn


def _b_range(interp, st, args, kw):
    vals = [interp.resolve(st, a) for a in args]
    if all(isinstance(v, int) for v in vals):
        return VList(list(range(*vals)))
    raise Unsupported("symbolic range")


def _b_zip(interp, st, args, kw):
    seqs = [interp.iterate_concrete(st, interp.resolve(st, a)) for a in args]
    return VList([VTuple(list(t)) for t in zip(*seqs)])


def _b_enumerate(interp, st, args, kw):
    seq = interp.iterate_concrete(st, interp.resolve(st, args[0]))
    start = args[1] if len(args) > 1 else kw.get("start", 0)
    return VList([VTuple([start + i, x]) for i, x in enumerate(seq)])


def truth_expr(interp, st, v):
    """Python truthiness of v as a formula, without branching (numbers, None, optional values, booleans)"""
    v = interp.resolve(st, v) if not isinstance(v, VOpt) else v
    if isinstance(v, bool):
        return z3.BoolVal(v)
    if v is None:
        return z3.BoolVal(False)
    if is_z3(v) and z3.is_bool(v):
        return v
    if isinstance(v, VOpt):
        return z3.And(z3.Not(v.is_none) if is_z3(v.is_none) else z3.BoolVal(not v.is_none), truth_expr(interp, st, v.val))
    if isinstance(v, Cx):
        return z3.Or(to_real(v.re) != 0, to_real(v.im) != 0)
    if is_num(v):
        return to_real(v) != 0
    raise Unsupported("truth value of %r inside all()/any() over a symbolic mapping" % type(v).__name__)


def _quantified(interp, st, v, universal):
    """all(e(k) for k in M) / any(...) over a symbolic mapping: a quantified formula over the keys of M"""
    body = truth_expr(interp, st, v.elt)
    dom = z3.Select(comp_domain(v), v.k)
    if universal:
        return z3.ForAll([v.k], z3.Implies(dom, body))
    return z3.Exists([v.k], z3.And(dom, body))


def _b_all(interp, st, args, kw):
    v = interp.resolve(st, args[0])
    if isinstance(v, VComp):
        return _quantified(interp, st, v, True)
    for x in interp.iterate_concrete(st, v):
        if not interp.truth(st, x):
            return False
    return True


def _b_any(interp, st, args, kw):
    v = interp.resolve(st, args[0])
    if isinstance(v, VComp):
        return _quantified(interp, st, v, False)
    for x in interp.iterate_concrete(st, v):
        if interp.truth(st, x):
            return True
    return False


def _b_getattr(interp, st, args, kw):
    name = interp.resolve(st, args[1])
    if not isinstance(name, str):
        obj = interp.resolve(st, args[0])
        # an object without class definition whose contract provides __getattr__ (stub of a table: getattr(table, symbol))
        if isinstance(obj, VObj) and not isinstance(obj.cls, tuple) and ("%s.__getattr__" % obj.cls) in interp.contracts:
            return interp.contracts["%s.__getattr__" % obj.cls](interp, st, [obj, name], {})
        raise Unsupported("getattr with symbolic name")
    if len(args) == 3:
        try:
            return interp.getattr_(st, args[0], name)
        except PyRaise as e:
            if e.exc == "AttributeError":
                return args[2]
            raise
    return interp.getattr_(st, args[0], name)


def _b_hasattr(interp, st, args, kw):
    name = args[1]
    obj = interp.resolve(st, args[0])
    if isinstance(obj, VSym) and not isinstance(name, str):
        return obj.theory.hasattr(interp, st, obj, name)
    if not isinstance(name, str):
        raise Unsupported("hasattr with symbolic name")
    try:
        interp.getattr_(st, obj, name)
        return True
    except PyRaise as e:
        if e.exc == "AttributeError":
            return False
        raise


def _b_setattr(interp, st, args, kw):
    if not isinstance(args[1], str):
        raise Unsupported("setattr with symbolic name")
    interp.setattr_(st, args[0], args[1], args[2])
    return None


def _b_sorted(interp, st, args, kw):
    v = interp.resolve(st, args[0])
    if isinstance(v, MapItems) and st.ghost.get("sorted_keys") is not None:
        return st.ghost["sorted_keys"](interp, st, v, kw)
    if isinstance(v, VSym):
        return v.theory.sorted(interp, st, v, kw)
    items = interp.iterate_concrete(st, v)
    if all(isinstance(x, (int, str, Fraction)) for x in items) and not kw:
        return VList(sorted(items))
    if "key" in kw and len(items) <= 1:
        return VList(items)
    if not kw and len(items) <= 4 and all(is_num(interp.resolve(st, x)) for x in items):
        # symbolic numbers: insertion sort, branching on the comparisons (A3: sorted is the ordered permutation)
        out = []
        for x in items:
            x = interp.resolve(st, x)
            pos = len(out)
            for i, y in enumerate(out):
                if interp.truth(st, num_cmp("<", x, y)):
                    pos = i
                    break
            out.insert(pos, x)
        return VList(out)
    if not kw and len(items) <= 4 and all(isinstance(interp.resolve(st, x), VTuple) and len(interp.resolve(st, x).items) >= 1
                                        and is_num(interp.resolve(st, interp.resolve(st, x).items[0])) for x in items):
        # tuples led by symbolic numbers (dict items keyed by numbers): ordered by the leading number; a possible tie would
        # compare the second components, which is not modelled
        out = []
        for x in items:
            x = interp.resolve(st, x)
            x0 = interp.resolve(st, x.items[0])
            pos = len(out)
            for i, y in enumerate(out):
                y0 = interp.resolve(st, y.items[0])
                if st.feasible(to_z3num(x0) == to_z3num(y0)):
                    raise Unsupported("sorted() of tuples with possibly equal leading numbers")
                if interp.truth(st, num_cmp("<", x0, y0)):
                    pos = i
                    break
            out.insert(pos, x)
        return VList(out)
    srt = st.ghost.get("sorted")
    if srt is not None:
        return srt(interp, st, items, kw)
    raise Unsupported("sorted() of symbolic items")


def _b_copy(interp, st, args, kw):
    v = interp.resolve(st, args[0])
    if isinstance(v, VObj):
        interp.assumed.add("A3 copy.copy: fresh object, same field values")
        return VObj(v.cls, dict(v.attrs))
    if isinstance(v, VList):
        return VList(list(v.items))
    if isinstance(v, (VTuple, int, Fraction, str)) or is_z3(v):
        return v
    raise Unsupported("copy of %r" % type(v).__name__)


def _b_print(interp, st, args, kw):
    return None


def _b_round(interp, st, args, kw):
    raise Unsupported("round()")


def _b_math_sqrt(interp, st, args, kw):
    return sqrt_value(interp, st, args[0])


def _b_np_sqrt(interp, st, args, kw):
    return sqrt_value(interp, st, args[0], numpy_mode=True)


def _b_exp(interp, st, args, kw):
    return exp_value(interp, st, args[0])


def _b_expm1(interp, st, args, kw):
    return num_sub(exp_value(interp, st, args[0]), 1)


def _b_log(interp, st, args, kw):
    return log_value(interp, st, args[0])


def _b_identity(interp, st, args, kw):
    interp.assumed.add("A2 numpy.asarray/array: identity on element values (index semantics)")
    v = interp.resolve(st, args[0])
    if isinstance(v, (VTuple, VList)) and not isinstance(v, VArrN):
        return VArrN(list(v.items))
    return v


def _b_array_copy(interp, st, args, kw):
    """numpy.array(x): a NEW array with the values of x (in-place updates of it do not reach x)"""
    v = _b_identity(interp, st, args, kw)
    if is_z3(v):
        return type(v)(v.as_ast(), v.ctx)
    if isinstance(v, VArrN):
        return VArrN(list(v.items))
    import copy
    return copy.copy(v) if isinstance(v, VArrTag) else v


INTERP_RE = z3.Function("interp_re", z3.RealSort(), z3.IntSort(), z3.IntSort(), z3.RealSort())
INTERP_IM = z3.Function("interp_im", z3.RealSort(), z3.IntSort(), z3.IntSort(), z3.RealSort())
INTERP_NAN = z3.Function("interp_nan_outside", z3.RealSort(), z3.IntSort(), z3.IntSort(), z3.RealSort())
_TAGS = {}


def tag_id(name):
    if name not in _TAGS:
        _TAGS[name] = len(_TAGS) + 1
    return z3.IntVal(_TAGS[name])


def _b_np_interp(interp, st, args, kw):
    """numpy.interp(x, xp, fp, left=None, right=None) (A2): piecewise-linear interpolant of the
    table (xp, fp), clamped to the end values unless left/right are given.  The table columns are
    opaque; which column is the axis and whether clamping applies is what the contracts check."""
    x = interp.resolve(st, args[0])
    xp, fp = args[1], args[2]
    if isinstance(x, VArrN):
        return VArrN([_b_np_interp(interp, st, [xi] + list(args[1:]), kw) for xi in x.items])
    if not (isinstance(xp, VArrTag) and isinstance(fp, VArrTag)):
        raise Unsupported("np.interp on non-table arguments")
    left = kw.get("left", args[3] if len(args) > 3 else None)
    right = kw.get("right", args[4] if len(args) > 4 else None)
    interp.assumed.add("A2 numpy.interp: piecewise linear in xp, end-clamped unless left/right given")
    if left is None and right is None:
        return Cx(INTERP_RE(to_real(x), tag_id(xp.name), tag_id(fp.name)),
                  INTERP_IM(to_real(x), tag_id(xp.name), tag_id(fp.name)))
    if left is NAN and right is NAN:
        return INTERP_NAN(to_real(x), tag_id(xp.name), tag_id(fp.name))
    raise Unsupported("np.interp with left/right other than NaN")


def _b_np_sum(interp, st, args, kw):
    v = interp.resolve(st, args[0])
    axis = kw.get("axis")
    if isinstance(v, VArrN):
        if axis not in (None, 0):
            raise Unsupported("np.sum axis=%r on the materials axis model" % (axis,))
        interp.assumed.add("A2 numpy.sum: sum along the first (materials) axis / of all entries of a 1-D array")
        from ast import Add
        total = 0
        for x in v.items:
            total = interp.binop(st, Add(), total, x)
        return total
    if is_num(v) or isinstance(v, Cx):
        return v
    raise Unsupported("np.sum of %r" % type(v).__name__)


def _b_np_allany(universal):
    def fn(interp, st, args, kw):
        """numpy.all / numpy.any of a 1-D array of numbers (no axis): every / some entry is non-zero (A2)"""
        v = interp.resolve(st, args[0])
        if kw or len(args) != 1:
            raise Unsupported("np.all/np.any with axis or keywords")
        interp.assumed.add("A2 numpy.all / numpy.any: every / some entry of a 1-D array is non-zero")
        if isinstance(v, VArrN):
            parts = [truth_expr(interp, st, x) for x in v.items]
            return z3.And(parts) if universal else z3.Or(parts)
        if is_num(v) or isinstance(v, (bool, Cx)) or (is_z3(v) and z3.is_bool(v)):
            return truth_expr(interp, st, v)
        raise Unsupported("np.all/np.any of %r" % type(v).__name__)
    return fn


def _b_np_maximum(interp, st, args, kw):
    interp.assumed.add("A2 numpy.maximum: element-wise max")
    return max2(interp, st, interp.resolve(st, args[0]), interp.resolve(st, args[1]))


def _b_np_isclose(interp, st, args, kw):
    """numpy.isclose(a, b, rtol=1e-05, atol=1e-08): |a - b| <= atol + rtol*|b|  (A2)"""
    from fractions import Fraction as _F
    a, b = interp.resolve(st, args[0]), interp.resolve(st, args[1])
    rtol = kw.get("rtol", args[2] if len(args) > 2 else _F("1e-5"))
    atol = kw.get("atol", args[3] if len(args) > 3 else _F("1e-8"))
    interp.assumed.add("A2 numpy.isclose: |a-b| <= atol + rtol*|b|")
    diff = abs_value(interp, st, num_sub(a, b))
    bound = num_add(atol, num_mul(rtol, abs_value(interp, st, b)))
    return num_cmp("<=", diff, bound)


def _b_np_isscalar(interp, st, args, kw):
    v = interp.resolve(st, args[0])
    vec = st.ghost.get("is_vector")
    if vec is not None and (is_num(v) or isinstance(v, Cx)):
        # the wavelength argument is modelled by its i-th element; whether the caller passed
        # a scalar or a vector is a free boolean
        return z3.Not(vec)
    return is_num(v) or isinstance(v, (Cx, str))


def _b_np_ones_like(interp, st, args, kw):
    interp.assumed.add("A2 numpy.ones_like: array of ones of the same shape (element value 1)")
    return 1


def _b_cos(interp, st, args, kw):
    raise Unsupported("cos without radians")


def _b_radians(interp, st, args, kw):
    return ("radians", interp.resolve(st, args[0]))


def _b_cos_generic(interp, st, args, kw):
    v = args[0]
    if isinstance(v, tuple) and v[0] == "radians":
        x = v[1]
        if is_concrete_num(x) and x == 90:
            return 0
        if is_concrete_num(x) and x == 0:
            return 1
        r = COSD_F(to_real(x))
        st.assume(z3.And(r >= -1, r <= 1))
        interp.assumed.add("A3 cos(radians(x)): opaque function of x with range [-1,1], cos(90 deg)=0")
        for deg, val in ((0, "1"), (60, "1/2"), (90, "0"), (120, "-1/2"), (180, "-1")):
            st.assume(COSD_F(z3.RealVal(deg)) == z3.RealVal(val))
        return r
    raise Unsupported("cos of non-radians value")


def _b_isnan(interp, st, args, kw):
    v = interp.resolve(st, args[0])
    return v is NAN


_BUILTINS = {
    "len": _b_len, "abs": _b_abs, "isinstance": _b_isinstance, "tuple": _b_tuple, "list": _b_list,
    "dict": _b_dict, "float": _b_float, "int": _b_int, "str": _b_str, "sum": _b_sum,
    "min": _b_minmax("min"), "max": _b_minmax("max"), "range": _b_range, "zip": _b_zip,
    "enumerate": _b_enumerate, "all": _b_all, "any": _b_any, "getattr": _b_getattr,
    "hasattr": _b_hasattr, "setattr": _b_setattr, "sorted": _b_sorted, "print": _b_print,
    "round": _b_round,
}
_CLASS_NAMES = ["list", "tuple", "dict", "float", "int", "str", "object", "bool", "complex"]


def builtin(name):
    if name in _BUILTINS:
        b = VBuiltin(name, _BUILTINS[name])
        return b
    if name in EXC_PARENTS:
        return VClass(name, None)
    if name in ("True", "False", "None"):
        return {"True": True, "False": False, "None": None}[name]
    return None


def builtin_class(name):
    if name in _BUILTINS:
        return VBuiltin(name, _BUILTINS[name])
    return None


# isinstance(x, (list, tuple)) needs the names as classes; calls on them go to the builtin.
class _BuiltinTypeName(VClass):
    pass


def _patch_builtin_classes():
    orig = builtin

    def builtin2(name):
        if name in _CLASS_NAMES:
            return VClass(name, None)
        return orig(name)
    return builtin2


builtin = _patch_builtin_classes()


def _np_namespace():
    ns = {
        "sqrt": VBuiltin("np.sqrt", _b_np_sqrt), "exp": VBuiltin("np.exp", _b_exp),
        "abs": VBuiltin("np.abs", _b_abs), "maximum": VBuiltin("np.maximum", _b_np_maximum),
        "asarray": VBuiltin("np.asarray", _b_identity), "array": VBuiltin("np.array", _b_array_copy),
        "isscalar": VBuiltin("np.isscalar", _b_np_isscalar),
        "ones_like": VBuiltin("np.ones_like", _b_np_ones_like),
        "pi": None, "nan": NAN, "inf": INF, "isnan": VBuiltin("np.isnan", _b_isnan),
        "radians": VBuiltin("np.radians", _b_radians), "cos": VBuiltin("np.cos", _b_cos_generic),
        "interp": VBuiltin("np.interp", _b_np_interp), "sum": VBuiltin("np.sum", _b_np_sum),
        "isclose": VBuiltin("np.isclose", _b_np_isclose),
        "all": VBuiltin("np.all", _b_np_allany(True)), "any": VBuiltin("np.any", _b_np_allany(False)),
        "asarray": VBuiltin("np.asarray", _b_identity),
    }
    return ns


class _LazyPi:
    pass


def library(base, attr):
    """shims for math / numpy / copy imports; None when not a library name"""
    if base in ("math", "numpy", "np"):
        if attr is None:
            ns = _np_namespace()
            ns["pi"] = VBuiltin("pi", None)
            return VModule(base, _PiNs(ns))
        if attr == "pi":
            return _PI_TOKEN
        table = {
            "sqrt": _b_math_sqrt if base == "math" else _b_np_sqrt,
            "exp": _b_exp, "expm1": _b_expm1, "log": _b_log,
            "asarray": _b_identity, "array": _b_array_copy,
            "radians": _b_radians, "cos": _b_cos_generic, "isnan": _b_isnan,
            "maximum": _b_np_maximum, "interp": _b_np_interp, "sum": _b_np_sum,
        }
        if base != "math":
            table.update({"all": _b_np_allany(True), "any": _b_np_allany(False)})
        if attr == "inf":
            return INF
        if attr == "nan":
            return NAN
        if attr in table:
            return VBuiltin(base + "." + attr, table[attr])
        raise Unsupported("library function %s.%s" % (base, attr))
    if base == "copy" and attr == "copy":
        return VBuiltin("copy.copy", _b_copy)
    if base == "warnings":
        # warnings.warn(...) has no effect on values (A3)
        if attr is None:
            return VModule("warnings", {"warn": VBuiltin("warnings.warn", lambda i, s, a, k: None)})
        if attr == "warn":
            return VBuiltin("warnings.warn", lambda i, s, a, k: None)
    if base == "__future__":
        return None if attr is None else True
    return None


class _PiToken:
    pass


_PI_TOKEN = PI


class _PiNs(dict):
    def __init__(self, d):
        dict.__init__(self, d)
        self["pi"] = PI


# ------------------------------------------------------------------ methods of builtin containers

def method(interp, st, recv, name, args, kwargs, node=None):
    if isinstance(recv, VMap):
        return map_method(interp, st, recv, name, args, kwargs, node)
    if isinstance(recv, VDict):
        return dict_method(interp, st, recv, name, args, kwargs, node)
    if isinstance(recv, (VList, VTuple)):
        return seq_method(interp, st, recv, name, args, kwargs, node)
    if isinstance(recv, str) or (is_z3(recv) and z3.is_string(recv)):
        from . import strings
        return strings.str_method(interp, st, recv, name, args, kwargs, node)
    raise Unsupported("method %s of %r" % (name, type(recv).__name__))


class MapItems:
    """the view returned by VMap.items()/keys(); iterated only through a loop contract"""

    def __init__(self, m, what):
        self.m = m
        self.what = what
        self.symbolic_iter = True


def map_method(interp, st, m, name, args, kwargs, node):
    if name in ("items", "keys", "values"):
        return MapItems(m, name)
    if name == "get":
        k = interp.map_key(m, interp.resolve(st, args[0]))
        default = args[1] if len(args) > 1 else None
        inside = z3.Select(m.dom, k)
        val = z3.Select(m.val, k)
        if default is not None and is_num(default) and m.wrap is None:
            d = to_real(default) if m.vsort == z3.RealSort() else to_z3num(default)
            return z3.If(inside, val, d)
        if st.branch(inside):
            return interp.map_wrap_val(m, val)
        return default
    if name == "copy":
        return VMap(m.dom, m.val, m.ksort, m.vsort, m.wrap)
    raise Unsupported("dict method %s on symbolic map" % name)


def dict_method(interp, st, d, name, args, kwargs, node):
    if name == "items":
        return VList([VTuple([k, v]) for k, v in d.entries])
    if name == "keys":
        return VList([k for k, _ in d.entries])
    if name == "values":
        return VList([v for _, v in d.entries])
    if name == "get":
        for k, v in d.entries:
            if interp.truth(st, interp.equals(st, k, args[0])):
                return v
        return args[1] if len(args) > 1 else None
    if name == "pop":
        for i, (k, v) in enumerate(d.entries):
            if interp.truth(st, interp.equals(st, k, args[0])):
                del d.entries[i]
                return v
        if len(args) > 1:
            return args[1]
        _raise("KeyError", "pop of missing key", node)
    if name == "copy":
        return VDict([[k, v] for k, v in d.entries])
    if name == "setdefault":
        for k, v in d.entries:
            if interp.truth(st, interp.equals(st, k, args[0])):
                return v
        val = args[1] if len(args) > 1 else None
        interp.dict_set(st, d, args[0], val)
        return val
    if name == "clear":
        del d.entries[:]
        return None
    if name == "update":
        other = interp.resolve(st, args[0])
        for k, v in other.entries:
            interp.dict_set(st, d, k, v)
        return None
    raise Unsupported("dict method %s" % name)


def seq_method(interp, st, s, name, args, kwargs, node):
    if name == "append" and isinstance(s, VList):
        s.items.append(args[0])
        return None
    if name == "extend" and isinstance(s, VList):
        s.items.extend(interp.iterate_concrete(st, interp.resolve(st, args[0])))
        return None
    if name == "index":
        for i, x in enumerate(s.items):
            if interp.truth(st, interp.equals(st, x, args[0])):
                return i
        _raise("ValueError", "not in list", node)
    if name == "count":
        raise Unsupported("count")
    raise Unsupported("sequence method %s" % name)


def str_format(interp, st, fmt, arg, node):
    from . import strings
    return strings.format_percent(interp, st, fmt, arg, node)


def str_slice(interp, st, s, lo, hi, step):
    from . import strings
    return strings.slice_(interp, st, s, lo, hi, step)


def str_index(interp, st, s, idx, node):
    from . import strings
    return strings.index_(interp, st, s, idx, node)
