"""Specification vocabulary shared by contracts: structural equality goals, finite sums over maps
(L3), lambdas, quantifiers."""
from fractions import Fraction
import z3

from .values import *   # noqa
from .values import Unsupported, Cx, VTuple, VList, VDict, VMap, VObj, VSym, VOpt, NAN, INF

_SUM = {}


def sum_fn(ksort):
    key = str(ksort)
    if key not in _SUM:
        _SUM[key] = z3.Function("SumOver_" + key, z3.ArraySort(ksort, z3.BoolSort()),
                                z3.ArraySort(ksort, z3.RealSort()), z3.RealSort())
    return _SUM[key]


def lam(ksort, fn, name="a"):
    """z3 lambda  a : ksort |-> fn(a)  (real valued)"""
    a = z3.Const("%s!lam" % name, ksort)
    body = fn(a)
    return z3.Lambda([a], to_real(body))


_CANON = {}


def is_lambda(e):
    return z3.is_quantifier(e) and e.is_lambda()


def canon_array(st, arr):
    """A lambda passed to an uninterpreted function makes counter-models unobtainable (z3 answers
    unknown).  Each distinct lambda (up to alpha) is therefore named by a constant; its defining
    equation is instantiated at the keys where it is read (`array_at`)."""
    if not is_lambda(arr):
        return arr
    arr = z3.simplify(arr)
    if not is_lambda(arr):
        return arr
    key = (arr.sort().sexpr(), arr.body().sexpr())
    if key not in _CANON:
        import hashlib
        h = hashlib.sha1(repr(key).encode()).hexdigest()[:10]
        _CANON[key] = (z3.Const("fam_" + h, arr.sort()), arr)
    c, lam_ = _CANON[key]
    st.ghost.setdefault("canon", {})[c.get_id()] = (c, lam_)
    return c


def array_at(st, arr, k):
    """arr[k], instantiating the definition of a named lambda at k"""
    canon = st.ghost.get("canon", {})
    if arr.get_id() in canon:
        c, lam_ = canon[arr.get_id()]
        val = z3.simplify(z3.Select(lam_, k))
        st.assume(z3.Select(c, k) == val)
        return val
    return z3.simplify(z3.Select(arr, k))


def SumOver(st, V, f, ksort):
    """finite sum over the key set V of f (L3).  The two defining equations are instantiated for
    the syntactic shape of V (empty set / one-element extension); nothing else is assumed."""
    F = sum_fn(ksort)
    f = canon_array(st, f)
    if is_lambda(V):
        V = canon_array(st, V)
    term = F(V, f)
    if z3.is_K(V) and z3.is_false(V.arg(0)):
        st.assume(term == 0)
    elif z3.is_store(V) and z3.is_true(V.arg(2)):
        V0, k = V.arg(0), V.arg(1)
        inner = SumOver(st, V0, f, ksort)     # nested stores (two insertions) are unfolded too
        st.assume(z3.Implies(z3.Not(z3.Select(V0, k)), term == inner + array_at(st, f, k)))
    return term


def eq_goal(interp, st, have, want, tol=None):
    """formula stating that two engine values are equal (used as a proof goal)"""
    have = _res(have)
    want = _res(want)
    from .values import VStr as _VStr
    if isinstance(have, _VStr) or isinstance(want, _VStr):
        # a text the engine does not model (f-string, '%g', str() of an object ...): nothing can be concluded about it
        raise Unsupported("a goal depends on a text the engine does not model (%s)" % getattr(have if isinstance(have, _VStr) else want, "desc", "string"))
    if isinstance(have, VOpt) or isinstance(want, VOpt):
        return _opt_eq(interp, st, have, want)
    if have is None or want is None:
        return z3.BoolVal(have is None and want is None)
    if have is NAN or want is NAN or have is INF or want is INF:
        return z3.BoolVal(have is want)
    if isinstance(have, Cx) or isinstance(want, Cx):
        if not ((isinstance(have, Cx) or is_num(have)) and (isinstance(want, Cx) or is_num(want))):
            return z3.BoolVal(False)
        a, b = Cx.of(have), Cx.of(want)
        return z3.And(_b(num_cmp("==", a.re, b.re)), _b(num_cmp("==", a.im, b.im)))
    if is_num(have) and is_num(want):
        return _b(num_cmp("==", have, want))
    if isinstance(have, (VTuple, VList)) and isinstance(want, (VTuple, VList)):
        if have.kind != want.kind or len(have.items) != len(want.items):
            return z3.BoolVal(False)
        return z3.And([eq_goal(interp, st, x, y) for x, y in zip(have.items, want.items)] + [z3.BoolVal(True)])
    if isinstance(have, VDict) and isinstance(want, VMap):
        have = vdict_to_map(interp, have, want)
    if isinstance(want, VDict) and isinstance(have, VMap):
        want = vdict_to_map(interp, want, have)
    if isinstance(have, VMap) and isinstance(want, VMap):
        k = st.fresh("k_ext", have.ksort)
        for m in (have, want):
            if m.inst is not None:
                m.inst(st, k)
        return z3.And(z3.Select(have.dom, k) == z3.Select(want.dom, k),
                      z3.Implies(z3.Select(have.dom, k), z3.Select(have.val, k) == z3.Select(want.val, k)))
    if isinstance(have, VSym) and isinstance(want, VSym):
        return _b(have.theory.equals(interp, st, have, want))
    if isinstance(have, (str,)) and isinstance(want, str):
        return z3.BoolVal(have == want)
    if (isinstance(have, str) or (is_z3(have) and z3.is_string(have))) and \
            (isinstance(want, str) or (is_z3(want) and z3.is_string(want))):
        ea = z3.StringVal(have) if isinstance(have, str) else have
        eb = z3.StringVal(want) if isinstance(want, str) else want
        return ea == eb
    if is_z3(have) and is_z3(want) and have.sort() == want.sort():
        return have == want
    if isinstance(have, VObj) and isinstance(want, VObj):
        return z3.BoolVal(have is want)
    if type(have) != type(want):
        return z3.BoolVal(False)
    raise Unsupported("eq_goal on %r / %r" % (type(have).__name__, type(want).__name__))


def _res(v):
    return v


def vdict_to_map(interp, d, like):
    dom = z3.K(like.ksort, z3.BoolVal(False))
    val = like.val if False else z3.K(like.ksort, z3.RealVal(0) if like.vsort == z3.RealSort() else z3.IntVal(0))
    for k, v in d.entries:
        ke = interp.map_key(like, k)
        dom = z3.Store(dom, ke, z3.BoolVal(True))
        val = z3.Store(val, ke, interp.map_val_expr(like, v))
    return VMap(dom, val, like.ksort, like.vsort, like.wrap)


def _opt_eq(interp, st, a, b):
    def parts(v):
        if isinstance(v, VOpt):
            return v.is_none, v.val
        if v is None:
            return z3.BoolVal(True), None
        return z3.BoolVal(False), v
    na, va = parts(a)
    nb, vb = parts(b)
    both = z3.And(na, nb)
    if va is None or vb is None:
        return both if (va is None and vb is None) else z3.And(na, nb)
    return z3.Or(both, z3.And(z3.Not(na), z3.Not(nb), eq_goal(interp, st, va, vb)))


def _b(x):
    if isinstance(x, bool):
        return z3.BoolVal(x)
    return x


def implies(a, b):
    return z3.Implies(_b(a), _b(b))


def conj(*xs):
    return z3.And([_b(x) for x in xs] + [z3.BoolVal(True)])


def disj(*xs):
    return z3.Or([_b(x) for x in xs] + [z3.BoolVal(False)])


def neg(a):
    return z3.Not(_b(a))


class Forall:
    """universally quantified clause  forall a:sort. body(a).
    As a goal it is skolemised (fresh constant + the definitional unfoldings `inst` at it); as an
    assumption it is a quantified formula."""

    def __init__(self, sort, body, inst=None, name="a"):
        self.sort = sort
        self.body = body
        self.inst = inst
        self.name = name

    def as_goal(self, st):
        a = st.fresh(self.name + "_sk", self.sort)
        if self.inst is not None:
            self.inst(st, a)
        return _b(self.body(a))

    def as_assumption(self):
        a = z3.Const(self.name + "!q", self.sort)
        return z3.ForAll([a], _b(self.body(a)))


def goal(st, clause):
    if isinstance(clause, Forall):
        return clause.as_goal(st)
    return _b(clause)


def assumption(clause):
    if isinstance(clause, Forall):
        return clause.as_assumption()
    return _b(clause)
