"""Symbolic interpreter for the Python subset of DESIGN.md 2.3.

Executes the *real* AST of one function along one path (State), forking by
re-execution.  Calls are resolved to (a) contracts (modular), (b) inlined real
bodies, (c) library shims (assumed contracts A2/A3), else Unsupported.
"""
import ast
import re
from fractions import Fraction
import z3

from . import extract
from .values import *   # noqa
from .values import (Unsupported, Infeasible, PyRaise, Return, Break, Continue, Cx, VTuple, VList,
                     VDict, VMap, VOpt, VObj, VSym, VClass, VFunc, VBuiltin, VModule,
                     VBoundMethod, VExcInstance, VStr, NAN, INF, exc_isinstance)
from .state import State, PathResult
from .values import VComp, VArrN, VArrTag


class ClassInfo:
    """what the interpreter needs to know about a class, read from its AST"""

    def __init__(self, name, modname, node):
        self.name = name
        self.modname = modname
        self.node = node
        self.methods = {}
        self.getters = {}
        self.setters = {}
        self.attrs = {}
        self.bases = [b.id for b in node.bases if isinstance(b, ast.Name)]
        for item in node.body:
            if isinstance(item, ast.FunctionDef):
                decos = item.decorator_list
                if any(isinstance(d, ast.Name) and d.id == "property" for d in decos):
                    self.getters[item.name] = item
                elif any(isinstance(d, ast.Attribute) and d.attr == "setter" for d in decos):
                    self.setters[item.name] = item
                else:
                    self.methods[item.name] = item
            elif isinstance(item, ast.Assign) and len(item.targets) == 1 \
                    and isinstance(item.targets[0], ast.Name):
                self.attrs[item.targets[0].id] = item.value


class Frame:
    def __init__(self, locals_, closure, modname, func=None):
        self.locals = locals_
        self.closure = closure      # list of dicts, innermost first
        self.modname = modname
        self.func = func


def _flat_items(c):
    out = []
    for it in (c.entries if hasattr(c, "entries") else c.items):
        if isinstance(it, (list, tuple)):
            out.extend(it)
        else:
            out.append(it)
    return out


_NO_ENCLOSING = object()


class Interp:
    def __init__(self, contracts=None, inline=None, env_overrides=None, options=None):
        self.contracts = contracts or {}      # qualname -> callable(interp, st, args, kwargs) -> value
        self.inline = set(inline or ())       # qualnames whose real bodies may be inlined
        self.env_overrides = env_overrides or {}   # (modname, name) -> value
        self.options = dict(div_zero="branch", max_depth=12)
        self.options.update(options or {})
        self.classes = {}
        self.loop_contracts = {}              # (target, ordinal) -> dict
        self.modconst_cache = {}
        self.shims = None
        self.functions_seen = {}              # qualname -> Extracted (for evidence)
        self.assumed = set()                  # library contracts used (A2/A3 items)

    # ================================================================= names
    def class_info(self, modname, name):
        key = (modname, name)
        if key not in self.classes:
            node = extract.class_node(modname, name)
            self.classes[key] = ClassInfo(name, modname, node)
        return self.classes[key]

    def lookup(self, st, frame, name):
        if name in frame.locals:
            return frame.locals[name]
        for env in frame.closure:
            if name in env:
                return env[name]
        v = self.lookup_enclosing(st, frame, name)
        if v is not _NO_ENCLOSING:
            return v
        return self.lookup_global(st, frame.modname, name)

    def lookup_enclosing(self, st, frame, name):
        """a free name of a nested function that its contract does not supply: a sibling `def` of the enclosing function, or a
        name the enclosing function binds exactly once, to a literal (typically introduced by a refactoring)"""
        q = getattr(frame.func, "qualname", None) if frame.func is not None else None
        if not q or "::" not in q:
            return _NO_ENCLOSING
        outer = q.rsplit("::", 1)[0]
        try:
            ext = extract.extract(outer)
        except extract.ExtractError:
            return _NO_ENCLOSING
        fn = ext.node
        if not isinstance(fn, ast.FunctionDef):
            return _NO_ENCLOSING
        binders = []
        stack = list(fn.body)
        while stack:
            n = stack.pop()
            if isinstance(n, (ast.FunctionDef, ast.ClassDef)):
                if n.name == name:
                    binders.append(n)
                continue
            if isinstance(n, ast.Lambda):
                continue
            if isinstance(n, (ast.Assign, ast.AugAssign, ast.AnnAssign, ast.For, ast.With, ast.NamedExpr, ast.Import, ast.ImportFrom)):
                for t in ast.walk(n):
                    if isinstance(t, ast.Name) and t.id == name and isinstance(t.ctx, ast.Store):
                        binders.append(n)
                        break
                    if isinstance(t, ast.alias) and (t.asname or t.name) == name:
                        binders.append(n)
                        break
            stack.extend(ast.iter_child_nodes(n))
        if name in [a.arg for a in fn.args.args + fn.args.kwonlyargs + fn.args.posonlyargs] or len(binders) != 1:
            return _NO_ENCLOSING
        b = binders[0]
        if isinstance(b, ast.FunctionDef) and b in fn.body:
            try:
                ext2 = extract.extract(outer + "::" + name)
            except extract.ExtractError:
                return _NO_ENCLOSING
            self.assumed.add("free name %s of %s: the sibling function of the enclosing scope, inlined" % (name, q))
            return VFunc(ext2, [{}] + list(frame.closure), qualname=outer + "::" + name)
        if isinstance(b, ast.Assign) and b in fn.body and len(b.targets) == 1 and isinstance(b.targets[0], ast.Name):
            try:
                ast.literal_eval(b.value)
            except (ValueError, SyntaxError, TypeError):
                return _NO_ENCLOSING
            self.assumed.add("free name %s of %s: the literal the enclosing function binds it to (bound once)" % (name, q))
            return self.eval(st, Frame({}, [], frame.modname), b.value)
        return _NO_ENCLOSING

    def lookup_global(self, st, modname, name):
        key = (modname, name)
        if key in self.env_overrides:
            return self.env_overrides[key]
        mod = extract.module(modname)
        node = mod.toplevel(name)
        if isinstance(node, ast.FunctionDef):
            ext = extract.extract(modname + "." + name)
            return VFunc(ext, [], qualname=modname + "." + name)
        if isinstance(node, ast.ClassDef):
            return VClass(name, modname)
        assigns = mod.assignments()
        if name in assigns:
            if key in self.modconst_cache:
                return self.modconst_cache[key]
            per_state = st.ghost.setdefault("module_state", {})
            if key in per_state:
                return per_state[key]
            fr = Frame({}, [], modname)
            n_pc = len(st.pc)
            val = self.eval(st, fr, assigns[name])
            if isinstance(val, (VDict, VList)):
                # module-level mutable containers (caches, registries) are process state: one object
                # per path, initially as written in the source
                per_state[key] = val
                # remembered for the frame obligation: a function that leaves something in a module-level
                # container (memo cache, registry) must say so in its contract
                st.ghost.setdefault("module_snapshot", {})[key] = (val, _flat_items(val))
                return val
            if len(st.pc) == n_pc:
                # cache only values whose evaluation assumed nothing (axioms of sqrt/log/exp terms
                # belong to the state in which the term was created)
                self.modconst_cache[key] = val
            return val
        imps = mod.imports()
        if name in imps:
            base, attr = imps[name]
            return self.resolve_import(st, base, attr)
        from . import shims
        b = shims.builtin(name)
        if b is not None:
            return b
        raise Unsupported("unresolved name %s in %s" % (name, modname))

    def resolve_import(self, st, base, attr):
        from . import shims
        lib = shims.library(base, attr)
        if lib is not None:
            return lib
        if base.startswith("periodictable"):
            if attr is None:
                return VModule(base, None)
            try:
                extract.module(base + "." + attr)
                return VModule(base + "." + attr, None)
            except extract.ExtractError:
                pass
            return self.lookup_global(st, base, attr)
        raise Unsupported("import %s.%s" % (base, attr))

    # ================================================================= helpers
    def resolve(self, st, v):
        """resolve an optional value by branching"""
        while isinstance(v, VOpt):
            if st.branch(v.is_none):
                return None
            v = v.val
        return v

    def truth(self, st, v):
        v = self.resolve(st, v)
        if v is None:
            return False
        if isinstance(v, bool):
            return v
        if isinstance(v, (int, Fraction)):
            return v != 0
        if isinstance(v, str):
            return len(v) > 0
        if is_z3(v):
            if z3.is_bool(v):
                return st.branch(v)
            if z3.is_arith(v):
                return st.branch(v != 0)
            if z3.is_string(v):
                return st.branch(z3.Length(v) > 0)
        if isinstance(v, (VTuple, VList)):
            return len(v.items) > 0
        if isinstance(v, VDict):
            return len(v.entries) > 0
        if isinstance(v, VMap):
            k = st.fresh("k_any", v.ksort)
            return st.branch(z3.Exists([k], z3.Select(v.dom, k)))
        if isinstance(v, VSym):
            return v.theory.truth(self, st, v)
        if isinstance(v, (VObj, VFunc, VBuiltin, VClass, VModule)):
            return True
        if isinstance(v, Cx):
            return st.branch(z3.Or(to_real(v.re) != 0, to_real(v.im) != 0))
        if v is NAN or v is INF:
            return True
        raise Unsupported("truth value of %r" % (v,))

    def as_bool_expr(self, st, v):
        """bool as z3 expr or python bool without branching where possible"""
        v = self.resolve(st, v)
        if isinstance(v, bool) or (is_z3(v) and z3.is_bool(v)):
            return v
        return self.truth(st, v)

    def raise_(self, exc, msg=None, node=None):
        raise PyRaise(exc, msg, getattr(node, "lineno", None))

    # ================================================================= equality
    def equals(self, st, a, b):
        """Python == ; returns bool or z3 Bool"""
        a = self.resolve(st, a)
        b = self.resolve(st, b)
        if a is None or b is None:
            return a is None and b is None
        if isinstance(a, Cx) or isinstance(b, Cx):
            if (isinstance(a, Cx) or is_num(a)) and (isinstance(b, Cx) or is_num(b)):
                a, b = Cx.of(a), Cx.of(b)
                return self.and_(num_cmp("==", a.re, b.re), num_cmp("==", a.im, b.im))
            return False
        if is_num(a) and is_num(b):
            return num_cmp("==", a, b)
        if isinstance(a, str) and isinstance(b, str):
            return a == b
        if (isinstance(a, str) or (is_z3(a) and z3.is_string(a))) and \
                (isinstance(b, str) or (is_z3(b) and z3.is_string(b))):
            ea = z3.StringVal(a) if isinstance(a, str) else a
            eb = z3.StringVal(b) if isinstance(b, str) else b
            return ea == eb
        if isinstance(a, (VTuple, VList)) and isinstance(b, (VTuple, VList)):
            if a.kind != b.kind or len(a.items) != len(b.items):
                return False
            r = True
            for x, y in zip(a.items, b.items):
                r = self.and_(r, self.equals(st, x, y))
            return r
        if isinstance(a, VSym) and isinstance(b, VSym):
            return a.theory.equals(self, st, a, b)
        if isinstance(a, VSym):
            return a.theory.equals(self, st, a, b)
        if isinstance(b, VSym):
            return b.theory.equals(self, st, b, a)
        if isinstance(a, VObj) and isinstance(b, VObj):
            info = self.obj_class(a)
            if info is not None and "__eq__" in info.methods:
                return self.call_method_node(st, a, info, "__eq__", [b], {})
            return a is b
        if type(a) != type(b):
            if isinstance(a, (VObj, VTuple, VList, VDict, VMap)) or isinstance(b, (VObj, VTuple, VList, VDict, VMap)):
                return False
            if isinstance(a, str) or isinstance(b, str):
                if is_num(a) or is_num(b):
                    return False
        if a is NAN or b is NAN:
            return False
        if isinstance(a, VClass) and isinstance(b, VClass):
            return a.name == b.name
        raise Unsupported("== between %r and %r" % (type(a).__name__, type(b).__name__))

    def identical(self, st, a, b):
        if st.ghost.get("in_generic_element"):
            # inside the element expression of a comprehension over a symbolic mapping: `x is None` of an optional value is
            # the formula itself (no case split on the generic key)
            for x, y in ((a, b), (b, a)):
                if isinstance(x, VOpt) and not isinstance(x.val, VOpt) and y is None:
                    return x.is_none
        a = self.resolve(st, a)
        b = self.resolve(st, b)
        if a is None or b is None:
            return a is None and b is None
        if isinstance(a, VSym) and isinstance(b, VSym):
            return a.theory.equals(self, st, a, b)
        if isinstance(a, (VObj, VList, VDict, VMap)) or isinstance(b, (VObj, VList, VDict, VMap)):
            return a is b
        if isinstance(a, bool) and isinstance(b, bool):
            return a == b
        if a is NAN or b is NAN:
            return a is b
        raise Unsupported("'is' between %r and %r" % (type(a).__name__, type(b).__name__))

    @staticmethod
    def and_(a, b):
        if isinstance(a, bool):
            return b if a else False
        if isinstance(b, bool):
            return a if b else False
        return z3.And(a, b)

    @staticmethod
    def or_(a, b):
        if isinstance(a, bool):
            return True if a else b
        if isinstance(b, bool):
            return True if b else a
        return z3.Or(a, b)

    @staticmethod
    def not_(a):
        if isinstance(a, bool):
            return not a
        return z3.Not(a)

    # ================================================================= arithmetic
    def binop(self, st, op, a, b, node=None):
        a = self.resolve(st, a)
        b = self.resolve(st, b)
        opn = type(op).__name__
        if a is None or b is None:
            self.raise_("TypeError", "unsupported operand None", node)
        # numpy nan/inf tokens only propagate
        if a is NAN or b is NAN:
            if (a is NAN or is_num(a) or isinstance(a, Cx)) and (b is NAN or is_num(b) or isinstance(b, Cx)):
                return NAN
        if isinstance(a, VObj) or isinstance(b, VObj):
            return self.obj_binop(st, opn, a, b, node)
        if isinstance(a, VSym) and isinstance(b, VSym) and opn == "Add" and hasattr(a.theory, "concat") \
                and a.theory is b.theory:
            ka, kb = getattr(a, "kind", None), getattr(b, "kind", None)
            if ka is not None and ka == kb:
                return a.theory.concat(self, st, a, b)
            raise Unsupported("concatenation of sequences of unknown kind")
        if isinstance(a, VSym) or isinstance(b, VSym):
            self.raise_("TypeError", "unsupported operand types", node)
        if isinstance(a, (str, VStr)) or isinstance(b, (str, VStr)) or \
                (is_z3(a) and z3.is_string(a)) or (is_z3(b) and z3.is_string(b)):
            return self.str_binop(st, opn, a, b, node)
        if isinstance(a, VArrN) or isinstance(b, VArrN):
            if isinstance(a, VArrN) and isinstance(b, VArrN):
                if len(a.items) != len(b.items):
                    self.raise_("ValueError", "operands could not be broadcast together", node)
                return VArrN([self.binop(st, op, x, y, node) for x, y in zip(a.items, b.items)])
            if isinstance(a, VArrN):
                return VArrN([self.binop(st, op, x, b, node) for x in a.items])
            return VArrN([self.binop(st, op, a, y, node) for y in b.items])
        if isinstance(a, (VTuple, VList)) or isinstance(b, (VTuple, VList)):
            if opn == "Add" and isinstance(a, (VTuple, VList)) and isinstance(b, (VTuple, VList)):
                if a.kind != b.kind:
                    self.raise_("TypeError", "can only concatenate same kind", node)
                return type(a)(a.items + b.items)
            if opn == "Mult":
                seq, n = (a, b) if isinstance(a, (VTuple, VList)) else (b, a)
                if isinstance(n, int):
                    return type(seq)(seq.items * n)
            self.raise_("TypeError", "bad sequence operand", node)
        if isinstance(a, (VDict, VMap)) or isinstance(b, (VDict, VMap)):
            self.raise_("TypeError", "unsupported operand dict", node)
        if isinstance(a, Cx) or isinstance(b, Cx):
            ca, cb = Cx.of(a), Cx.of(b)
            if opn == "Add":
                return ca + cb
            if opn == "Sub":
                return ca - cb
            if opn == "Mult":
                return ca * cb
            if opn == "Div":
                self.check_div(st, cb, node)
                return ca.div(cb)
            if opn == "Pow" and isinstance(b, int) and b == 2:
                return ca * ca
            raise Unsupported("complex op %s" % opn)
        if opn in ("BitOr", "BitAnd"):
            def as_b(x):
                if isinstance(x, bool):
                    return x
                if is_z3(x) and z3.is_bool(x):
                    return x
                if isinstance(x, int) and x in (0, 1):
                    return bool(x)
                return None
            ba, bb = as_b(a), as_b(b)
            if ba is not None and bb is not None:
                return self.or_(ba, bb) if opn == "BitOr" else self.and_(ba, bb)
        if not (is_num(a) and is_num(b)):
            raise Unsupported("binop %s on %r, %r" % (opn, type(a).__name__, type(b).__name__))
        if opn not in ("BitOr", "BitAnd"):
            if is_z3(a) and z3.is_bool(a):
                a = to_z3num(a)
            if is_z3(b) and z3.is_bool(b):
                b = to_z3num(b)
        if opn == "Add":
            return num_add(a, b)
        if opn == "Sub":
            return num_sub(a, b)
        if opn == "Mult":
            return num_mul(a, b)
        if opn == "Div":
            self.check_div(st, b, node)
            return num_div(a, b)
        if opn == "Pow":
            if is_concrete_num(b) and Fraction(b).denominator == 1 and int(b) < 0:
                self.check_div(st, a, node)
            if is_concrete_num(b) and Fraction(b) == Fraction(1, 2):
                from . import shims
                return shims.sqrt_value(self, st, a, node)
            if is_concrete_num(b) and Fraction(b) == Fraction(1, 3):
                from . import shims
                self.assumed.add("A3 x**(1/3): real cube root (r*r*r == x, sign of x)")
                return shims.cbrt_value(self, st, a)
            return num_pow(a, b)
        if opn == "Mod":
            if is_concrete_num(a) and is_concrete_num(b):
                if b == 0:
                    self.raise_("ZeroDivisionError", "modulo by zero", node)
                return a % b
            ea, eb = to_z3num(a), to_z3num(b)
            if z3.is_int(ea) and z3.is_int(eb):
                self.check_div(st, b, node)
                if is_concrete_num(b) and b > 0:
                    return ea % eb
            raise Unsupported("symbolic modulo")
        if opn == "FloorDiv":
            if is_concrete_num(a) and is_concrete_num(b):
                if b == 0:
                    self.raise_("ZeroDivisionError", "division by zero", node)
                return a // b
            ea, eb = to_z3num(a), to_z3num(b)
            if z3.is_int(ea) and z3.is_int(eb) and is_concrete_num(b) and b > 0:
                return ea / eb
            raise Unsupported("symbolic floor division")
        raise Unsupported("binop %s" % opn)

    def check_div(self, st, b, node):
        mode = self.options.get("div_zero", "branch")
        if isinstance(b, Cx):
            if is_concrete_num(b.re) and is_concrete_num(b.im):
                if b.re == 0 and b.im == 0:
                    self.raise_("ZeroDivisionError", "division by zero", node)
                return
            cond = z3.And(to_real(b.re) == 0, to_real(b.im) == 0)
        elif is_concrete_num(b):
            if b == 0:
                self.raise_("ZeroDivisionError", "division by zero", node)
            return
        else:
            cond = to_z3num(b) == 0
        if mode == "assume":
            st.assumptions_used.add("division at line %s assumed non-zero" % getattr(node, "lineno", "?"))
            st.assume(z3.Not(cond))
            return
        if st.branch(cond):
            self.raise_("ZeroDivisionError", "division by zero", node)

    def str_binop(self, st, opn, a, b, node):
        if opn == "Mod":
            from . import shims
            return shims.str_format(self, st, a, b, node)
        if opn == "Add":
            if isinstance(a, str) and isinstance(b, str):
                return a + b
            sa = a if not isinstance(a, str) else z3.StringVal(a)
            sb = b if not isinstance(b, str) else z3.StringVal(b)
            if isinstance(sa, VStr) or isinstance(sb, VStr):
                if is_num(a) or is_num(b) or isinstance(a, Cx) or isinstance(b, Cx):
                    self.raise_("TypeError", "str + number", node)
                return VStr("concat")
            if is_z3(sa) and is_z3(sb) and z3.is_string(sa) and z3.is_string(sb):
                return z3.Concat(sa, sb)
            self.raise_("TypeError", "can only concatenate str", node)
        if opn == "Mult" and isinstance(a, str) and isinstance(b, int):
            return a * b
        self.raise_("TypeError", "bad operand for string", node)

    def obj_binop(self, st, opn, a, b, node):
        names = {"Add": ("__add__", "__radd__"), "Mult": ("__mul__", "__rmul__"),
                 "Sub": ("__sub__", "__rsub__"), "Div": ("__truediv__", "__rtruediv__")}
        if opn not in names:
            raise Unsupported("object operator %s" % opn)
        fwd, rev = names[opn]
        if isinstance(a, VObj):
            info = self.obj_class(a)
            if info and fwd in info.methods:
                return self.call_method_node(st, a, info, fwd, [b], {})
        if isinstance(b, VObj):
            info = self.obj_class(b)
            if info and rev in info.methods:
                return self.call_method_node(st, b, info, rev, [a], {})
        self.raise_("TypeError", "unsupported operand type(s)", node)

    def compare(self, st, op, a, b, node=None):
        opn = type(op).__name__
        if opn == "Eq":
            return self.equals(st, a, b)
        if opn == "NotEq":
            return self.not_(self.equals(st, a, b))
        if opn == "Is":
            return self.identical(st, a, b)
        if opn == "IsNot":
            return self.not_(self.identical(st, a, b))
        if opn in ("In", "NotIn"):
            r = self.contains(st, b, a, node)
            return r if opn == "In" else self.not_(r)
        a = self.resolve(st, a)
        b = self.resolve(st, b)
        sym = {"Lt": "<", "LtE": "<=", "Gt": ">", "GtE": ">="}[opn]
        if a is None or b is None:
            self.raise_("TypeError", "ordering with None", node)
        if a is NAN or b is NAN:
            return False
        if is_num(a) and is_num(b):
            return num_cmp(sym, a, b)
        if isinstance(a, str) and isinstance(b, str):
            return {"<": a < b, "<=": a <= b, ">": a > b, ">=": a >= b}[sym]
        if isinstance(a, (VTuple, VList)) and isinstance(b, (VTuple, VList)):
            raise Unsupported("sequence ordering")
        if is_num(a) or is_num(b):
            self.raise_("TypeError", "ordering between number and non-number", node)
        raise Unsupported("ordering of %r, %r" % (type(a).__name__, type(b).__name__))

    def contains(self, st, container, item, node=None):
        c = self.resolve(st, container)
        item = self.resolve(st, item)
        if isinstance(c, (VTuple, VList)):
            r = False
            for x in c.items:
                r = self.or_(r, self.equals(st, x, item))
            return r
        if isinstance(c, VDict):
            r = False
            for k, _ in c.entries:
                r = self.or_(r, self.equals(st, k, item))
            return r
        if isinstance(c, VMap):
            return z3.Select(c.dom, self.map_key(c, item))
        if isinstance(c, str) and isinstance(item, str):
            return item in c
        if (isinstance(c, str) or (is_z3(c) and z3.is_string(c))) and \
                (isinstance(item, str) or (is_z3(item) and z3.is_string(item))):
            ec = z3.StringVal(c) if isinstance(c, str) else c
            ei = z3.StringVal(item) if isinstance(item, str) else item
            return z3.Contains(ec, ei)
        if isinstance(c, VSym):
            return c.theory.contains(self, st, c, item)
        raise Unsupported("'in' on %r" % type(c).__name__)

    def map_key(self, m, key):
        if isinstance(key, VSym):
            e = key.expr
            if e.sort() != m.ksort:
                from . import theories
                if e.sort() == theories.Frag and m.ksort == theories.Atom:
                    return theories.Frag.atom_of(e)
                raise Unsupported("map key of sort %s in a map keyed by %s" % (e.sort(), m.ksort))
            return e
        if is_z3(key):
            return key
        if isinstance(key, int):
            return z3.IntVal(key)
        if isinstance(key, str):
            return z3.StringVal(key)
        raise Unsupported("map key %r" % (key,))

    def map_wrap_val(self, m, e):
        if m.wrap is not None:
            return m.wrap[1](e)
        return e

    def map_wrap_key(self, m, e):
        if m.wrap is not None:
            return m.wrap[0](e)
        return e

    # ================================================================= objects
    def obj_class(self, obj):
        if isinstance(obj.cls, tuple):
            return self.class_info(*obj.cls)
        return None

    def getattr_(self, st, obj, name, node=None):
        obj = self.resolve(st, obj)
        if isinstance(obj, VObj):
            if name == "__dict__":
                return VDict([[k, v] for k, v in obj.attrs.items()])
            info = self.obj_class(obj)
            if info is not None and name in info.getters:
                return self.call_property(st, obj, info, name)
            if name in obj.attrs:
                return obj.attrs[name]
            if info is None:
                qual = "%s.%s" % (obj.cls, name)
                if qual + "@get" in self.contracts:
                    return self.contracts[qual + "@get"](self, st, [obj], {})
                if qual in self.contracts:
                    return VBoundMethod(obj, name)
                self.raise_("AttributeError", "%s has no attribute %s" % (obj.cls, name), node)
            if info is not None:
                if name in info.methods:
                    return VBoundMethod(obj, name)
                if name in info.attrs:
                    fr = Frame({}, [], info.modname)
                    return self.eval(st, fr, info.attrs[name])
                if "__getattr__" in info.methods:
                    return self.call_method_node(st, obj, info, "__getattr__", [name], {})
            self.raise_("AttributeError", "%s has no attribute %s" % (obj.cls, name), node)
        if isinstance(obj, VSym):
            return obj.theory.getattr(self, st, obj, name, node)
        if isinstance(obj, VModule):
            if obj.ns is not None:
                if name in obj.ns:
                    return obj.ns[name]
                raise Unsupported("module attr %s.%s" % (obj.name, name))
            return self.lookup_global(st, obj.name, name)
        if isinstance(obj, Cx):
            if name == "real":
                return obj.re
            if name == "imag":
                return obj.im
        if is_num(obj):
            if name == "real":
                return obj
            if name == "imag":
                return 0
        if obj is None:
            self.raise_("AttributeError", "NoneType has no attribute %s" % name, node)
        if isinstance(obj, (VTuple, VList, VDict, VMap, str)) or (is_z3(obj) and z3.is_string(obj)):
            return VBoundMethod(obj, name)
        if isinstance(obj, VClass):
            info = self.class_info(obj.module, obj.name) if obj.module else None
            if info and name in info.attrs:
                return self.eval(st, Frame({}, [], info.modname), info.attrs[name])
            if info and name in info.methods:
                # `Base.method(self, ...)`: the plain function; contracts / inline permissions are keyed by its qualified name
                qual = "%s.%s.%s" % (info.modname, info.name, name)
                return VFunc(extract.extract(qual), [], qualname=qual)
            raise Unsupported("class attribute %s.%s" % (obj.name, name))
        if obj is NAN:
            if name in ("real", "imag"):
                return NAN
        raise Unsupported("attribute %s of %r" % (name, type(obj).__name__))

    def setattr_(self, st, obj, name, value, node=None):
        obj = self.resolve(st, obj)
        if isinstance(obj, VObj):
            info = self.obj_class(obj)
            if info is not None and name in info.setters:
                return self.call_setter(st, obj, info, name, value)
            if info is not None and name in info.getters:
                self.raise_("AttributeError", "can't set attribute %s" % name, node)
            obj.attrs[name] = value
            return
        if isinstance(obj, VSym):
            return obj.theory.setattr(self, st, obj, name, value, node)
        raise Unsupported("attribute store on %r" % type(obj).__name__)

    def auto_inline_ok(self, st, qual):
        """a call to a PRIVATE function of the library that no contract covers (typically a helper extracted by a refactoring)
        is inlined, a few levels deep and never recursively, instead of leaving the unit undecided; recorded in the evidence"""
        name = qual.split("::")[0].rsplit(".", 1)[-1]
        if not (qual.startswith("periodictable.") and name.startswith("_") and not name.startswith("__")):
            return False
        if self.options.get("auto_inline", True) is False or st.depth >= 4:
            return False
        stack = st.ghost.setdefault("auto_inline_stack", [])
        if qual in stack:
            return False
        self.assumed.add("private helper %s has no contract of its own: inlined into its caller" % qual)
        return True

    def call_property(self, st, obj, info, name):
        qual = "%s.%s.%s" % (info.modname, info.name, name)
        if qual in self.contracts:
            return self.contracts[qual](self, st, [obj], {})
        if qual in self.inline or "*" in self.inline:
            ext = extract.extract(qual)
            return self.call_function(st, VFunc(ext, [], qualname=qual), [obj], {})
        raise Unsupported("property %s has neither contract nor inline permission" % qual)

    def call_setter(self, st, obj, info, name, value):
        qual = "%s.%s.%s@setter" % (info.modname, info.name, name)
        if qual in self.contracts:
            return self.contracts[qual](self, st, [obj, value], {})
        if qual in self.inline or "*" in self.inline:
            ext = extract.extract(qual)
            return self.call_function(st, VFunc(ext, [], qualname=qual), [obj, value], {})
        raise Unsupported("setter %s has neither contract nor inline permission" % qual)

    def call_method_node(self, st, obj, info, name, args, kwargs):
        if info is None:
            qual = "%s.%s" % (obj.cls, name)
            if qual in self.contracts:
                return self.contracts[qual](self, st, [obj] + list(args), kwargs)
            raise Unsupported("method %s has no contract" % qual)
        qual = "%s.%s.%s" % (info.modname, info.name, name)
        if qual in self.contracts:
            return self.contracts[qual](self, st, [obj] + list(args), kwargs)
        if qual in self.inline or "*" in self.inline or self.auto_inline_ok(st, qual):
            ext = extract.extract(qual)
            return self.call_function(st, VFunc(ext, [], qualname=qual), [obj] + list(args), kwargs)
        raise Unsupported("method %s has neither contract nor inline permission" % qual)

    def instantiate(self, st, cls, args, kwargs):
        qual = "%s.%s" % (cls.module, cls.name)
        if qual in self.contracts:
            return self.contracts[qual](self, st, args, kwargs)
        from . import shims
        b = shims.builtin_class(cls.name)
        if cls.module is None and b is not None:
            return b.fn(self, st, args, kwargs)
        if cls.module is None:
            if cls.name in EXC_PARENTS:
                msg = args[0] if args else None
                return VExcInstance(cls.name, msg)
            raise Unsupported("instantiate %s" % cls.name)
        info = self.class_info(cls.module, cls.name)
        obj = VObj((cls.module, cls.name))
        if "__init__" in info.methods:
            self.call_method_node(st, obj, info, "__init__", args, kwargs)
        return obj

    # ================================================================= calls
    def call(self, st, fn, args, kwargs, node=None):
        fn = self.resolve(st, fn)
        if isinstance(fn, VBuiltin):
            return fn.fn(self, st, args, kwargs)
        if isinstance(fn, VFunc):
            if fn.qualname in self.contracts and not getattr(fn, "force_inline", False):
                return self.contracts[fn.qualname](self, st, args, kwargs)
            if fn.qualname in self.inline or "*" in self.inline or fn.closure or self.auto_inline_ok(st, fn.qualname):
                return self.call_function(st, fn, args, kwargs)
            raise Unsupported("call to %s: no contract and not inlinable" % fn.qualname)
        if isinstance(fn, VClass):
            return self.instantiate(st, fn, args, kwargs)
        if isinstance(fn, VBoundMethod):
            return self.call_bound(st, fn, args, kwargs, node)
        if fn is None:
            self.raise_("TypeError", "'NoneType' object is not callable", node)
        raise Unsupported("call of %r" % type(fn).__name__)

    def call_bound(self, st, bm, args, kwargs, node=None):
        recv = bm.recv
        if isinstance(recv, VObj):
            info = self.obj_class(recv)
            return self.call_method_node(st, recv, info, bm.name, args, kwargs)
        from . import shims
        return shims.method(self, st, recv, bm.name, args, kwargs, node)

    def bind_args(self, st, ext, closure, modname, args, kwargs):
        a = ext.args
        params = [p.arg for p in a.posonlyargs + a.args]
        loc = {}
        args = list(args)
        if len(args) > len(params) and a.vararg is None:
            self.raise_("TypeError", "too many positional arguments for %s" % ext.name)
        for p, v in zip(params, args):
            loc[p] = v
        if a.vararg is not None:
            loc[a.vararg.arg] = VTuple(args[len(params):])
        kw_extra = {}
        kwonly = [p.arg for p in a.kwonlyargs]
        for k, v in kwargs.items():
            if k in params or k in kwonly:
                if k in loc:
                    self.raise_("TypeError", "multiple values for argument %s" % k)
                loc[k] = v
            elif a.kwarg is not None:
                kw_extra[k] = v
            else:
                self.raise_("TypeError", "unexpected keyword argument %s" % k)
        if a.kwarg is not None:
            loc[a.kwarg.arg] = VDict([[k, v] for k, v in kw_extra.items()])
        defaults = a.defaults
        fr = Frame({}, closure, modname)
        for p, d in zip(params[len(params) - len(defaults):], defaults):
            if p not in loc:
                loc[p] = self.eval(st, fr, d)
        for p, d in zip(kwonly, a.kw_defaults):
            if p not in loc and d is not None:
                loc[p] = self.eval(st, fr, d)
        for p in params + kwonly:
            if p not in loc:
                self.raise_("TypeError", "missing argument %s for %s" % (p, ext.name))
        return loc

    def call_function(self, st, fn, args, kwargs):
        ext = fn.ext
        self.functions_seen[fn.qualname] = ext
        if fn.bound_self is not None:
            args = [fn.bound_self] + list(args)
        st.depth += 1
        if st.depth > self.options["max_depth"]:
            raise Unsupported("inlining depth exceeded at %s" % fn.qualname)
        _stack = st.ghost.setdefault("auto_inline_stack", [])
        _stack.append(fn.qualname)
        try:
            modname = ext.mod.modname
            loc = self.bind_args(st, ext, fn.closure, modname, args, kwargs)
            frame = Frame(loc, fn.closure, modname, func=fn)
            is_gen = any(isinstance(n, (ast.Yield, ast.YieldFrom)) for n in ast.walk(ext.node))
            if is_gen:
                # a generator function is run to exhaustion; its value is the list of yielded values
                # (laziness is not modelled: sound for generators without side effects between yields)
                frame.yields = []
                self.assumed.add("generator functions are run eagerly (list of yielded values)")
            try:
                self.exec_block(st, frame, ext.body)
            except Return as r:
                return VList(frame.yields) if is_gen else r.value
            except Continue:
                # only in an extracted loop body (`func::loop#k`): `continue` ends this iteration
                if getattr(ext.node, "source_node", None) is None:
                    raise
                return None
            return VList(frame.yields) if is_gen else None
        finally:
            st.depth -= 1
            if _stack and _stack[-1] == fn.qualname:
                _stack.pop()

    # ================================================================= expressions
    def eval(self, st, fr, node):
        m = getattr(self, "e_" + type(node).__name__, None)
        if m is None:
            raise Unsupported("expression %s at line %s" % (type(node).__name__, getattr(node, "lineno", "?")))
        return m(st, fr, node)

    def e_Constant(self, st, fr, node):
        v = node.value
        if isinstance(v, float):
            seg = ast.get_source_segment(extract.module(fr.modname).source, node) if False else None
            return Fraction(repr(v))
        if isinstance(v, complex):
            return Cx(0, Fraction(repr(v.imag)))
        if isinstance(v, (int, bool, str)) or v is None:
            return v
        if v is Ellipsis:
            raise Unsupported("Ellipsis")
        if isinstance(v, bytes):
            raise Unsupported("bytes")
        return v

    def e_Name(self, st, fr, node):
        return self.lookup(st, fr, node.id)

    def e_Attribute(self, st, fr, node):
        obj = self.eval(st, fr, node.value)
        return self.getattr_(st, obj, node.attr, node)

    def e_Tuple(self, st, fr, node):
        return VTuple(self.eval_items(st, fr, node.elts))

    def e_List(self, st, fr, node):
        return VList(self.eval_items(st, fr, node.elts))

    def eval_items(self, st, fr, elts):
        out = []
        for e in elts:
            if isinstance(e, ast.Starred):
                v = self.resolve(st, self.eval(st, fr, e.value))
                out.extend(self.iterate_concrete(st, v))
            else:
                out.append(self.eval(st, fr, e))
        return out

    def e_Dict(self, st, fr, node):
        ents = []
        for k, v in zip(node.keys, node.values):
            if k is None:
                raise Unsupported("dict unpacking")
            ents.append([self.eval(st, fr, k), self.eval(st, fr, v)])
        return VDict(ents)

    def e_BinOp(self, st, fr, node):
        a = self.eval(st, fr, node.left)
        b = self.eval(st, fr, node.right)
        return self.binop(st, node.op, a, b, node)

    def e_UnaryOp(self, st, fr, node):
        v = self.resolve(st, self.eval(st, fr, node.operand))
        if isinstance(node.op, ast.Not):
            return self.not_(self.as_bool_expr(st, v))
        if isinstance(node.op, ast.USub):
            if isinstance(v, Cx):
                return -v
            if is_num(v):
                return num_neg(v)
            if v is NAN:
                return NAN
            self.raise_("TypeError", "bad operand for unary -", node)
        if isinstance(node.op, ast.UAdd):
            if is_num(v) or isinstance(v, Cx):
                return v
            self.raise_("TypeError", "bad operand for unary +", node)
        raise Unsupported("unary op")

    def e_BoolOp(self, st, fr, node):
        # Python semantics: value of the deciding operand.  We branch operand by operand.
        is_and = isinstance(node.op, ast.And)
        val = None
        for i, sub in enumerate(node.values):
            val = self.eval(st, fr, sub)
            if i == len(node.values) - 1:
                return val
            t = self.truth(st, val)
            if is_and and not t:
                return val
            if (not is_and) and t:
                return val
        return val

    def e_Compare(self, st, fr, node):
        left = self.eval(st, fr, node.left)
        result = True
        for op, rhs in zip(node.ops, node.comparators):
            right = self.eval(st, fr, rhs)
            r = self.compare(st, op, left, right, node)
            if len(node.ops) == 1:
                return r
            if not self.truth(st, r):
                return False
            left = right
        return result

    def e_IfExp(self, st, fr, node):
        c = self.eval(st, fr, node.test)
        if self.truth(st, c):
            return self.eval(st, fr, node.body)
        return self.eval(st, fr, node.orelse)

    def e_Lambda(self, st, fr, node):
        mod = extract.module(fr.modname)
        ext = extract.Extracted("%s::<lambda@%d>" % (fr.modname, node.lineno), mod, node, kind="lambda")
        return VFunc(ext, [fr.locals] + fr.closure, qualname=ext.target)

    def e_Subscript(self, st, fr, node):
        obj = self.resolve(st, self.eval(st, fr, node.value))
        if isinstance(obj, VArrN) and isinstance(node.slice, ast.Tuple):
            elts = node.slice.elts
            if len(elts) == 2 and isinstance(elts[0], ast.Slice) and elts[0].lower is None and elts[0].upper is None \
                    and isinstance(elts[1], ast.Constant) and elts[1].value is None:
                self.assumed.add("A2 numpy a[:, None]: adds a trailing axis (broadcast against the wavelength axis)")
                return obj
            raise Unsupported("array subscript")
        if isinstance(node.slice, ast.Slice):
            lo = self.eval(st, fr, node.slice.lower) if node.slice.lower else None
            hi = self.eval(st, fr, node.slice.upper) if node.slice.upper else None
            step = self.eval(st, fr, node.slice.step) if node.slice.step else None
            return self.slice_(st, obj, lo, hi, step, node)
        idx = self.resolve(st, self.eval(st, fr, node.slice))
        return self.getitem(st, obj, idx, node)

    def slice_(self, st, obj, lo, hi, step, node=None):
        if isinstance(obj, (VTuple, VList, str)):
            for x in (lo, hi, step):
                if x is not None and not isinstance(x, int):
                    raise Unsupported("symbolic slice bound")
            r = obj[slice(lo, hi, step)]
            return r
        if isinstance(obj, VSym):
            return obj.theory.slice(self, st, obj, lo, hi, step, node)
        if is_z3(obj) and z3.is_string(obj):
            from . import shims
            return shims.str_slice(self, st, obj, lo, hi, step)
        raise Unsupported("slice of %r" % type(obj).__name__)

    def getitem(self, st, obj, idx, node=None):
        if isinstance(obj, (VTuple, VList)):
            if isinstance(idx, int):
                if -len(obj.items) <= idx < len(obj.items):
                    return obj.items[idx]
                self.raise_("IndexError", "index out of range", node)
            if is_z3(idx):
                # symbolic index into a concrete-length sequence: branch over positions
                for k in range(len(obj.items)):
                    if st.branch(idx == k):
                        return obj.items[k]
                self.raise_("IndexError", "index out of range", node)
            self.raise_("TypeError", "bad index", node)
        if isinstance(obj, VDict):
            for k, v in obj.entries:
                if self.truth(st, self.equals(st, k, idx)):
                    return v
            self.raise_("KeyError", "key not found", node)
        if isinstance(obj, VMap):
            k = self.map_key(obj, idx)
            if not st.branch(z3.Select(obj.dom, k)):
                self.raise_("KeyError", "key not found", node)
            return self.map_wrap_val(obj, z3.Select(obj.val, k))
        if isinstance(obj, str):
            if isinstance(idx, int):
                if -len(obj) <= idx < len(obj):
                    return obj[idx]
                self.raise_("IndexError", "string index out of range", node)
        if is_z3(obj) and z3.is_string(obj):
            from . import shims
            return shims.str_index(self, st, obj, idx, node)
        if isinstance(obj, VSym):
            return obj.theory.getitem(self, st, obj, idx, node)
        if isinstance(obj, VObj):
            info = self.obj_class(obj)
            if info and "__getitem__" in info.methods:
                return self.call_method_node(st, obj, info, "__getitem__", [idx], {})
            if info is None and ("%s.__getitem__" % obj.cls) in self.contracts:
                return self.contracts["%s.__getitem__" % obj.cls](self, st, [obj, idx], {})
        if obj is None:
            self.raise_("TypeError", "'NoneType' is not subscriptable", node)
        raise Unsupported("subscript of %r" % type(obj).__name__)

    def e_Call(self, st, fr, node):
        fn = self.eval(st, fr, node.func)
        args = []
        for a in node.args:
            if isinstance(a, ast.Starred):
                v = self.resolve(st, self.eval(st, fr, a.value))
                args.extend(self.iterate_concrete(st, v))
            else:
                args.append(self.eval(st, fr, a))
        kwargs = {}
        for kw in node.keywords:
            if kw.arg is None:
                d = self.resolve(st, self.eval(st, fr, kw.value))
                if not isinstance(d, VDict):
                    raise Unsupported("** of non-concrete dict")
                for k, v in d.entries:
                    if not isinstance(k, str):
                        raise Unsupported("** key")
                    kwargs[k] = v
            else:
                kwargs[kw.arg] = self.eval(st, fr, kw.value)
        return self.call(st, fn, args, kwargs, node)

    def e_ListComp(self, st, fr, node):
        r = self.comprehension(st, fr, node.elt, node.generators)
        if len(r) == 1 and isinstance(r[0], (VComp, VSym)) and getattr(r[0], "from_comp", False):
            return r[0]
        return VList(r)

    def e_GeneratorExp(self, st, fr, node):
        return self.e_ListComp(st, fr, node)

    def comp_over_map(self, st, fr, elt, g, it):
        """[elt for k, v in M.items() (if cond)] as an abstract family indexed by the keys of M.
        The element expression is evaluated once at a generic key; it must not branch."""
        from .shims import MapItems
        m = it.m if isinstance(it, MapItems) else it
        what = it.what if isinstance(it, MapItems) else "keys"
        k = st.fresh("kc", m.ksort)
        n_forks = st.forks
        inner = Frame(dict(fr.locals), fr.closure, fr.modname, fr.func)
        kv = self.map_wrap_key(m, k)
        vv = self.map_wrap_val(m, z3.Select(m.val, k))
        item = {"items": VTuple([kv, vv]), "keys": kv, "values": vv}[what]
        self.assign_target(st, inner, g.target, item)
        conds = []
        saved = st.ghost.get("in_generic_element")
        st.ghost["in_generic_element"] = True
        try:
            for c in g.ifs:
                conds.append(self.as_bool_expr(st, self.eval(st, inner, c)))
            val = self.eval(st, inner, elt)
        except PyRaise as e:
            # the generic key is not known to be a key of M: an exception here says nothing about the real iteration
            raise Unsupported("comprehension element may raise %s at a generic key (line %s)" % (e.exc, g.iter.lineno))
        finally:
            st.ghost["in_generic_element"] = saved
        if st.forks != n_forks:
            raise Unsupported("comprehension element branches on the generic key (line %s)" % g.iter.lineno)
        c = VComp(m, k, val, conds)
        c.from_comp = True
        return c

    def e_DictComp(self, st, fr, node):
        out = []

        class _KV:
            pass
        pairs = self.comprehension(st, fr, ast.Tuple(elts=[node.key, node.value], ctx=ast.Load()), node.generators)
        if len(pairs) == 1 and isinstance(pairs[0], VComp):
            # {k: e for k, v in M.items()} over a symbolic map: the same as dict((k, e) for ...)
            from . import shims
            return shims._b_dict(self, st, [pairs[0]], {})
        d = VDict()
        for p in pairs:
            self.dict_set(st, d, p.items[0], p.items[1])
        return d

    def comprehension(self, st, fr, elt, gens, depth=0):
        if depth == len(gens):
            return [self.eval(st, fr, elt)]
        g = gens[depth]
        it = self.resolve(st, self.eval(st, fr, g.iter))
        from .shims import MapItems
        if isinstance(it, (MapItems, VMap)) and depth == 0 and len(gens) == 1:
            return [self.comp_over_map(st, fr, elt, g, it)]
        if isinstance(it, VSym) and depth == 0 and len(gens) == 1:
            return [it.theory.comprehension(self, st, fr, elt, g, it)]
        items = self.iterate_concrete(st, it)
        out = []
        inner = Frame(dict(fr.locals), fr.closure, fr.modname, fr.func)
        # comprehension scope: reads see enclosing locals
        for item in items:
            self.assign_target(st, inner, g.target, item)
            ok = True
            for cond in g.ifs:
                if not self.truth(st, self.eval(st, inner, cond)):
                    ok = False
                    break
            if ok:
                out.extend(self.comprehension(st, inner, elt, gens, depth + 1))
        return out

    def iterate_concrete(self, st, v):
        v = self.resolve(st, v)
        if isinstance(v, (VTuple, VList)):
            return list(v.items)
        if isinstance(v, VDict):
            return [k for k, _ in v.entries]
        if isinstance(v, str):
            return list(v)
        if isinstance(v, (list, tuple)):
            return list(v)
        if v is None:
            self.raise_("TypeError", "'NoneType' object is not iterable")
        if is_num(v):
            self.raise_("TypeError", "number is not iterable")
        if isinstance(v, VObj):
            # objects with __iter__: a contract (stubs) or the class's own generator method (run eagerly)
            info = self.obj_class(v) if isinstance(v.cls, tuple) else None
            if info is None and ("%s.__iter__" % v.cls) in self.contracts:
                return self.iterate_concrete(st, self.contracts["%s.__iter__" % v.cls](self, st, [v], {}))
            if info is not None and "__iter__" in info.methods:
                return self.iterate_concrete(st, self.call_method_node(st, v, info, "__iter__", [], {}))
        raise Unsupported("iteration over %r" % type(v).__name__)

    def e_Yield(self, st, fr, node):
        if not hasattr(fr, "yields"):
            raise Unsupported("yield outside a generator frame")
        fr.yields.append(self.eval(st, fr, node.value) if node.value is not None else None)
        return None

    def e_JoinedStr(self, st, fr, node):
        """f-strings: literal pieces, {x} of strings / integers, {n:<width>d} and {n:+<width>d}; anything else is an unmodelled text"""
        from . import strings
        parts = []
        for v in node.values:
            if isinstance(v, ast.Constant) and isinstance(v.value, str):
                parts.append(v.value)
                continue
            if not isinstance(v, ast.FormattedValue) or v.conversion not in (-1, 115):
                return VStr("fstring")
            val = self.resolve(st, self.eval(st, fr, v.value))
            spec = ""
            if v.format_spec is not None:
                if not all(isinstance(x, ast.Constant) for x in v.format_spec.values):
                    return VStr("fstring")
                spec = "".join(x.value for x in v.format_spec.values)
            if spec == "" and (isinstance(val, str) or (is_z3(val) and z3.is_string(val))):
                parts.append(val)
            elif (spec == "" or re.fullmatch(r"[+ ]?\d*d", spec)) and (isinstance(val, int) and not isinstance(val, bool) or (is_z3(val) and z3.is_int(val))):
                r = strings.format_percent(self, st, "%" + (spec if spec else "d"), VTuple([val]), node)
                if isinstance(r, VStr):
                    return r
                parts.append(r)
            else:
                return VStr("fstring")
        if all(isinstance(x, str) for x in parts):
            return "".join(parts)
        exprs = [z3.StringVal(x) if isinstance(x, str) else x for x in parts if not (isinstance(x, str) and x == "")]
        return z3.Concat(*exprs) if len(exprs) > 1 else exprs[0]

    # ================================================================= statements
    def exec_block(self, st, fr, body):
        for stmt in body:
            self.exec_stmt(st, fr, stmt)

    def exec_stmt(self, st, fr, node):
        m = getattr(self, "s_" + type(node).__name__, None)
        if m is None:
            raise Unsupported("statement %s at line %s" % (type(node).__name__, node.lineno))
        return m(st, fr, node)

    def s_Pass(self, st, fr, node):
        pass

    def s_Expr(self, st, fr, node):
        if isinstance(node.value, ast.Constant):
            return
        self.eval(st, fr, node.value)

    def s_Return(self, st, fr, node):
        raise Return(self.eval(st, fr, node.value) if node.value is not None else None)

    def s_Break(self, st, fr, node):
        raise Break()

    def s_Continue(self, st, fr, node):
        raise Continue()

    def s_Global(self, st, fr, node):
        raise Unsupported("global statement")

    def s_Nonlocal(self, st, fr, node):
        raise Unsupported("nonlocal statement")

    def s_Import(self, st, fr, node):
        for a in node.names:
            fr.locals[a.asname or a.name.split(".")[0]] = self.resolve_import(st, a.name, None)

    def s_ImportFrom(self, st, fr, node):
        base = node.module or ""
        if node.level:
            parts = fr.modname.split(".")
            is_pkg = extract.module(fr.modname).path.endswith("__init__.py")
            up = parts[:len(parts) - node.level + (1 if is_pkg else 0)]
            base = ".".join(up + ([node.module] if node.module else []))
        for a in node.names:
            fr.locals[a.asname or a.name] = self.resolve_import(st, base, a.name)

    def s_FunctionDef(self, st, fr, node):
        mod = extract.module(fr.modname)
        base = fr.func.qualname if fr.func is not None else fr.modname
        ext = extract.Extracted(base + "::" + node.name, mod, node)
        fr.locals[node.name] = VFunc(ext, [fr.locals] + fr.closure, qualname=ext.target)

    def s_Assign(self, st, fr, node):
        v = self.eval(st, fr, node.value)
        for t in node.targets:
            self.assign_target(st, fr, t, v)

    def s_AnnAssign(self, st, fr, node):
        if node.value is not None:
            self.assign_target(st, fr, node.target, self.eval(st, fr, node.value))

    def assign_target(self, st, fr, t, v):
        if isinstance(t, ast.Name):
            fr.locals[t.id] = v
        elif isinstance(t, (ast.Tuple, ast.List)):
            v = self.resolve(st, v)
            if isinstance(v, VSym):
                items = v.theory.unpack(self, st, v, len(t.elts))
            else:
                items = self.iterate_concrete(st, v)
            if any(isinstance(e, ast.Starred) for e in t.elts):
                raise Unsupported("starred assignment")
            if len(items) != len(t.elts):
                self.raise_("ValueError", "wrong number of values to unpack", t)
            for e, x in zip(t.elts, items):
                self.assign_target(st, fr, e, x)
        elif isinstance(t, ast.Attribute):
            obj = self.eval(st, fr, t.value)
            self.setattr_(st, obj, t.attr, v, t)
        elif isinstance(t, ast.Subscript):
            obj = self.resolve(st, self.eval(st, fr, t.value))
            if isinstance(t.slice, ast.Slice):
                raise Unsupported("slice assignment")
            idx = self.resolve(st, self.eval(st, fr, t.slice))
            self.setitem(st, obj, idx, v, t)
        else:
            raise Unsupported("assignment target %s" % type(t).__name__)

    def dict_set(self, st, d, key, v):
        for ent in d.entries:
            if self.truth(st, self.equals(st, ent[0], key)):
                ent[1] = v
                return
        d.entries.append([key, v])

    def setitem(self, st, obj, idx, v, node=None):
        for nm, a in st.ghost.get("array_args", []):
            if a is obj:
                st.ghost.setdefault("illegal_writes", []).append("item assignment into the caller's array argument '%s' (line %s)" % (nm, getattr(node, "lineno", "?")))
        if isinstance(obj, VList):
            if isinstance(idx, int) and -len(obj.items) <= idx < len(obj.items):
                obj.items[idx] = v
                return
            self.raise_("IndexError", "list assignment index out of range", node)
        if isinstance(obj, VTuple):
            self.raise_("TypeError", "'tuple' object does not support item assignment", node)
        if isinstance(obj, VDict):
            self.dict_set(st, obj, idx, v)
            return
        if isinstance(obj, VMap):
            k = self.map_key(obj, idx)
            v = self.resolve(st, v)
            ev = self.map_val_expr(obj, v)
            obj.dom = z3.Store(obj.dom, k, z3.BoolVal(True))
            obj.val = z3.Store(obj.val, k, ev)
            return
        if isinstance(obj, VSym):
            return obj.theory.setitem(self, st, obj, idx, v, node)
        raise Unsupported("item assignment on %r" % type(obj).__name__)

    def map_val_expr(self, m, v):
        if isinstance(v, VSym):
            return v.expr
        if m.vsort == z3.RealSort():
            return to_real(v)
        if m.vsort == z3.IntSort():
            e = to_z3num(v)
            if not z3.is_int(e):
                raise Unsupported("real into int map")
            return e
        if is_z3(v):
            return v
        raise Unsupported("map value %r" % (v,))

    def s_AugAssign(self, st, fr, node):
        t = node.target
        if isinstance(t, ast.Name):
            cur = self.lookup(st, fr, t.id)
            cur_r = self.resolve(st, cur)
            rhs = self.eval(st, fr, node.value)
            # numpy: `x op= y` on an ndarray updates the array in place.  When x still IS an argument that the contract
            # declares array-capable (index semantics, A2), the caller's array is written: a frame violation
            for nm, v in st.ghost.get("array_args", []):
                if v is cur or v is cur_r:
                    st.ghost.setdefault("illegal_writes", []).append("in-place update of the caller's array argument '%s' (line %d)" % (nm, node.lineno))
            if isinstance(cur_r, VObj) and isinstance(node.op, ast.Add):
                info = self.obj_class(cur_r)
                if info and "__iadd__" in info.methods:
                    fr.locals[t.id] = self.call_method_node(st, cur_r, info, "__iadd__", [rhs], {})
                    return
            if isinstance(cur_r, VList) and isinstance(node.op, ast.Add):
                cur_r.items.extend(self.iterate_concrete(st, rhs))
                return
            fr.locals[t.id] = self.binop(st, node.op, cur_r, rhs, node)
        elif isinstance(t, ast.Attribute):
            obj = self.eval(st, fr, t.value)
            cur = self.getattr_(st, obj, t.attr, t)
            rhs = self.eval(st, fr, node.value)
            self.setattr_(st, obj, t.attr, self.binop(st, node.op, cur, rhs, node), t)
        elif isinstance(t, ast.Subscript):
            obj = self.resolve(st, self.eval(st, fr, t.value))
            idx = self.resolve(st, self.eval(st, fr, t.slice))
            cur = self.getitem(st, obj, idx, t)
            rhs = self.eval(st, fr, node.value)
            self.setitem(st, obj, idx, self.binop(st, node.op, cur, rhs, node), t)
        else:
            raise Unsupported("augmented assignment target")

    def s_Delete(self, st, fr, node):
        for t in node.targets:
            if isinstance(t, ast.Subscript):
                obj = self.resolve(st, self.eval(st, fr, t.value))
                idx = self.resolve(st, self.eval(st, fr, t.slice))
                if isinstance(obj, VMap):
                    k = self.map_key(obj, idx)
                    if not st.branch(z3.Select(obj.dom, k)):
                        self.raise_("KeyError", "del of missing key", t)
                    obj.dom = z3.Store(obj.dom, k, z3.BoolVal(False))
                elif isinstance(obj, VDict):
                    for i, (k, _) in enumerate(obj.entries):
                        if self.truth(st, self.equals(st, k, idx)):
                            del obj.entries[i]
                            break
                    else:
                        self.raise_("KeyError", "del of missing key", t)
                else:
                    raise Unsupported("del item of %r" % type(obj).__name__)
            elif isinstance(t, ast.Name):
                fr.locals.pop(t.id, None)
            else:
                raise Unsupported("del target")

    def s_If(self, st, fr, node):
        c = self.eval(st, fr, node.test)
        if self.truth(st, c):
            self.exec_block(st, fr, node.body)
        else:
            self.exec_block(st, fr, node.orelse)

    def s_Assert(self, st, fr, node):
        c = self.eval(st, fr, node.test)
        if not self.truth(st, c):
            self.raise_("AssertionError", None, node)

    def s_Raise(self, st, fr, node):
        if node.exc is None:
            exc = fr.locals.get("__active_exc__")
            if exc is None:
                raise Unsupported("bare raise outside handler")
            raise PyRaise(exc.exc, exc.msg, node.lineno)
        v = self.eval(st, fr, node.exc)
        if isinstance(v, VExcInstance):
            raise PyRaise(v.exc, v.msg, node.lineno)
        if isinstance(v, VClass):
            raise PyRaise(v.name, None, node.lineno)
        raise Unsupported("raise of %r" % (v,))

    def s_Try(self, st, fr, node):
        if node.finalbody:
            raise Unsupported("try/finally")
        try:
            self.exec_block(st, fr, node.body)
        except PyRaise as e:
            for h in node.handlers:
                names = []
                if h.type is None:
                    names = ["BaseException"]
                elif isinstance(h.type, ast.Tuple):
                    names = [x.id for x in h.type.elts]
                elif isinstance(h.type, ast.Name):
                    names = [h.type.id]
                else:
                    raise Unsupported("except clause type")
                if any(exc_isinstance(e.exc, n) for n in names):
                    if h.name:
                        fr.locals[h.name] = VExcInstance(e.exc, e.msg)
                    saved = fr.locals.get("__active_exc__")
                    fr.locals["__active_exc__"] = VExcInstance(e.exc, e.msg)
                    try:
                        self.exec_block(st, fr, h.body)
                    finally:
                        if saved is None:
                            fr.locals.pop("__active_exc__", None)
                        else:
                            fr.locals["__active_exc__"] = saved
                    return
            raise
        else:
            self.exec_block(st, fr, node.orelse)

    def s_While(self, st, fr, node):
        key = self.loop_key(fr, node)
        lc = self.loop_contracts.get(key)
        if lc is not None:
            from . import loops
            return loops.while_loop(self, st, fr, node, lc)
        # concrete unrolling only
        n = 0
        while True:
            c = self.eval(st, fr, node.test)
            if is_z3(c):
                raise Unsupported("while loop with symbolic condition and no loop contract (line %d)" % node.lineno)
            if not self.truth(st, c):
                break
            try:
                self.exec_block(st, fr, node.body)
            except Break:
                return
            except Continue:
                pass
            n += 1
            if n > 2000:
                raise Unsupported("while loop unrolling bound")
        self.exec_block(st, fr, node.orelse)

    def loop_key(self, fr, node):
        """(function target, ordinal of the loop in source order within that function)"""
        if fr.func is None:
            return (fr.modname, node.lineno)
        fn = fr.func.ext.node
        loops_ = [n for n in ast.walk(fn) if isinstance(n, (ast.For, ast.While))]
        loops_.sort(key=lambda n: (n.lineno, n.col_offset))
        # exclude loops that belong to nested function definitions
        own = []
        nested = set()
        for sub in ast.walk(fn):
            if sub is not fn and isinstance(sub, (ast.FunctionDef, ast.Lambda)):
                for x in ast.walk(sub):
                    nested.add(id(x))
        for n in loops_:
            if id(n) not in nested:
                own.append(n)
        for i, n in enumerate(own, 1):
            if n is node:
                return (fr.func.qualname, i)
        return (fr.func.qualname, node.lineno)

    def s_For(self, st, fr, node):
        it = self.resolve(st, self.eval(st, fr, node.iter))
        key = self.loop_key(fr, node)
        lc = self.loop_contracts.get(key)
        symbolic = isinstance(it, (VSym, VMap)) or getattr(it, "symbolic_iter", None) is not None
        if symbolic:
            if lc is None:
                raise Unsupported("loop %s over a symbolic collection has no loop contract" % (key,))
            from . import loops
            return loops.for_loop(self, st, fr, node, it, lc, key)
        items = self.iterate_concrete(st, it)
        for item in items:
            self.assign_target(st, fr, node.target, item)
            try:
                self.exec_block(st, fr, node.body)
            except Break:
                return
            except Continue:
                continue
        self.exec_block(st, fr, node.orelse)


# ===================================================================== driver

def run_function(interp, fn, make_args, check, max_paths=600):
    """Explore all paths of `fn` (a VFunc).

    make_args(st) -> (args, kwargs, ctxobj); check(st, ctxobj, outcome...) records obligations.
    Returns the list of PathResults."""
    from .state import explore

    def run(st):
        args, kwargs, ctxobj = make_args(st)
        try:
            val = interp.call_function(st, fn, args, kwargs)
            res = PathResult(st, "return", value=val)
        except PyRaise as e:
            res = PathResult(st, "raise", exc=e.exc, msg=e.msg, lineno=e.lineno)
        except loops_Cut:
            res = PathResult(st, "cut")
        res.ctx = ctxobj
        check(st, ctxobj, res)
        return res
    return explore(run, max_paths=max_paths)


class loops_Cut(Exception):
    """path ends at a loop cut point (inv-preserve path)"""
