"""Value model of the symbolic executor (see DESIGN.md 2.4).

Concrete Python numbers are kept concrete (int, Fraction); float literals are
the exact rationals of their decimal text (assumption A1).  Anything symbolic
is a z3 expression.  Composite values are Python objects holding such leaves.
"""
from fractions import Fraction
import z3


class Unsupported(Exception):
    """construct outside the supported subset -> obligation is undecided"""


class Infeasible(Exception):
    """current path condition is unsatisfiable"""


class PyRaise(Exception):
    """the program under analysis raises a Python exception on this path"""

    def __init__(self, exc, msg=None, lineno=None):
        Exception.__init__(self, exc)
        self.exc = exc
        self.msg = msg
        self.lineno = lineno


class Return(Exception):
    def __init__(self, value):
        self.value = value


class Break(Exception):
    pass


class Continue(Exception):
    pass


EXC_PARENTS = {
    "ZeroDivisionError": "ArithmeticError", "ArithmeticError": "Exception",
    "KeyError": "LookupError", "IndexError": "LookupError", "LookupError": "Exception",
    "ValueError": "Exception", "TypeError": "Exception", "AttributeError": "Exception",
    "RuntimeError": "Exception", "AssertionError": "Exception", "Exception": "BaseException",
    "StopIteration": "Exception", "NotImplementedError": "RuntimeError",
    "BaseException": None,
}


def exc_isinstance(name, handler):
    while name is not None:
        if name == handler:
            return True
        name = EXC_PARENTS.get(name, "Exception" if name != "BaseException" else None)
    return False


# ---------------------------------------------------------------- numbers

def is_z3(v):
    return isinstance(v, z3.ExprRef)


def is_num(v):
    return (isinstance(v, (int, Fraction)) and not isinstance(v, bool)) or isinstance(v, bool) \
        or (is_z3(v) and (z3.is_arith(v)))


def is_concrete_num(v):
    return isinstance(v, (int, Fraction, bool))


def to_z3num(v):
    if is_z3(v):
        if z3.is_bool(v):
            return z3.If(v, z3.IntVal(1), z3.IntVal(0))
        return v
    if isinstance(v, bool):
        return z3.IntVal(1 if v else 0)
    if isinstance(v, int):
        return z3.IntVal(v)
    if isinstance(v, Fraction):
        return z3.RealVal(v)
    if isinstance(v, float):
        return z3.RealVal(Fraction(repr(v)))
    raise Unsupported("not a number: %r" % (v,))


def to_real(v):
    e = to_z3num(v)
    if z3.is_int(e):
        return z3.ToReal(e)
    return e


def is_real_sorted(v):
    if isinstance(v, Fraction):
        return True
    return is_z3(v) and z3.is_real(v)


def _both(a, b):
    """coerce two numeric values to a common z3 sort (or keep concrete)"""
    ea, eb = to_z3num(a), to_z3num(b)
    if z3.is_int(ea) and z3.is_int(eb):
        return ea, eb
    return to_real(ea), to_real(eb)


def num_add(a, b):
    if is_concrete_num(a) and is_concrete_num(b):
        return a + b
    x, y = _both(a, b)
    return x + y


def num_sub(a, b):
    if is_concrete_num(a) and is_concrete_num(b):
        return a - b
    x, y = _both(a, b)
    return x - y


def num_mul(a, b):
    if is_concrete_num(a) and is_concrete_num(b):
        return a * b
    if is_concrete_num(a) and a == 0 and not isinstance(a, Fraction):
        pass
    x, y = _both(a, b)
    return x * y


def num_neg(a):
    if is_concrete_num(a):
        return -a
    return -to_z3num(a)


def num_div(a, b):
    """true division; caller has already dealt with b == 0"""
    if is_concrete_num(a) and is_concrete_num(b):
        return Fraction(a) / Fraction(b)
    return to_real(a) / to_real(b)


def num_pow(a, n):
    if is_concrete_num(a) and is_concrete_num(n):
        if isinstance(n, int) or (isinstance(n, Fraction) and n.denominator == 1):
            n = int(n)
            if n >= 0:
                return a ** n
            return Fraction(1) / (Fraction(a) ** (-n))
        raise Unsupported("non-integer power of constants")
    if is_concrete_num(n) and Fraction(n).denominator == 1:
        n = int(n)
        if n == 0:
            return 1
        base = to_z3num(a)
        if n > 0 and n <= 8:
            r = base
            for _ in range(n - 1):
                r = r * base
            return r
        if n < 0 and n >= -8:
            r = to_real(base)
            p = r
            for _ in range(-n - 1):
                p = p * r
            return z3.RealVal(1) / p
    raise Unsupported("symbolic exponent")


def num_cmp(op, a, b):
    if is_concrete_num(a) and is_concrete_num(b):
        return {"<": a < b, "<=": a <= b, ">": a > b, ">=": a >= b,
                "==": a == b, "!=": a != b}[op]
    x, y = _both(a, b)
    return {"<": x < y, "<=": x <= y, ">": x > y, ">=": x >= y,
            "==": x == y, "!=": x != y}[op]


# ---------------------------------------------------------------- complex

class Cx:
    """complex number as a pair of reals"""

    def __init__(self, re, im):
        self.re = re
        self.im = im

    @staticmethod
    def of(v):
        if isinstance(v, Cx):
            return v
        return Cx(v, 0)

    def __add__(self, o):
        o = Cx.of(o)
        return Cx(num_add(self.re, o.re), num_add(self.im, o.im))
    __radd__ = __add__

    def __sub__(self, o):
        o = Cx.of(o)
        return Cx(num_sub(self.re, o.re), num_sub(self.im, o.im))

    def __rsub__(self, o):
        return Cx.of(o) - self

    def __mul__(self, o):
        o = Cx.of(o)
        return Cx(num_sub(num_mul(self.re, o.re), num_mul(self.im, o.im)),
                  num_add(num_mul(self.re, o.im), num_mul(self.im, o.re)))
    __rmul__ = __mul__

    def __neg__(self):
        return Cx(num_neg(self.re), num_neg(self.im))

    def div(self, o):
        o = Cx.of(o)
        if is_concrete_num(o.im) and o.im == 0:
            return Cx(num_div(self.re, o.re), num_div(self.im, o.re))
        d = num_add(num_mul(o.re, o.re), num_mul(o.im, o.im))
        n = self * Cx(o.re, num_neg(o.im))
        return Cx(num_div(n.re, d), num_div(n.im, d))

    def __repr__(self):
        return "Cx(%s, %s)" % (self.re, self.im)


# ---------------------------------------------------------------- containers

class VTuple:
    kind = "tuple"

    def __init__(self, items):
        self.items = list(items)

    def __len__(self):
        return len(self.items)

    def __getitem__(self, i):
        if isinstance(i, slice):
            return type(self)(self.items[i])
        return self.items[i]

    def __iter__(self):
        return iter(self.items)

    def __repr__(self):
        return "%s%r" % (self.kind, self.items)


class VList(VTuple):
    kind = "list"


class VArrN(VList):
    """numpy 1-D array of concrete length (along the *materials* axis); arithmetic is element-wise
    with scalar broadcasting (A2).  A possible trailing wavelength axis is carried by index
    semantics of the element values."""
    kind = "ndarray"


class VArrTag:
    """an opaque numpy array known only by name (e.g. the columns of an interpolation table)"""

    def __init__(self, name):
        self.name = name

    def __repr__(self):
        return "VArrTag(%s)" % self.name


class VDict:
    """dictionary with a concrete number of entries; keys may be symbolic."""

    def __init__(self, entries=None):
        self.entries = list(entries or [])   # list of [key, value]

    def __repr__(self):
        return "VDict(%r)" % (self.entries,)


class VMap:
    """finite map with symbolic domain: dom : K -> Bool, val : K -> V (z3 arrays)."""

    def __init__(self, dom, val, ksort, vsort, wrap=None, inst=None):
        self.dom = dom
        self.val = val
        self.ksort = ksort
        self.vsort = vsort
        self.wrap = wrap    # key/value wrappers (python callables) or None
        self.inst = inst    # fn(st, k): definitional unfoldings needed at a skolem key k

    def __repr__(self):
        return "VMap(%s,%s)" % (self.dom, self.val)


class VComp:
    """family {elt(k) : k in dom(M), conds(k)} produced by a comprehension over a symbolic map"""

    def __init__(self, m, k, elt, conds):
        self.m = m
        self.k = k
        self.elt = elt
        self.conds = conds
        self.from_comp = True


class VOpt:
    """None or a value; resolved by branching at the point of use."""

    def __init__(self, is_none, val):
        self.is_none = is_none
        self.val = val


class VObj:
    """heap object with a concrete set of instance attributes"""

    def __init__(self, cls, attrs=None):
        self.cls = cls
        self.attrs = dict(attrs or {})

    def __repr__(self):
        return "<%s %r>" % (self.cls, self.attrs)


class VSym:
    """value of an uninterpreted / datatype sort with a theory giving it attributes"""

    def __init__(self, expr, theory):
        self.expr = expr
        self.theory = theory

    def __repr__(self):
        return "VSym(%s)" % self.expr


class VClass:
    def __init__(self, name, module=None):
        self.name = name
        self.module = module

    def __repr__(self):
        return "<class %s>" % self.name


class VFunc:
    """closure over an extracted function"""

    def __init__(self, ext, closure, qualname=None, bound_self=None):
        self.ext = ext
        self.closure = closure
        self.qualname = qualname or ext.target
        self.bound_self = bound_self


class VBuiltin:
    def __init__(self, name, fn):
        self.name = name
        self.fn = fn

    def __repr__(self):
        return "<builtin %s>" % self.name


class VModule:
    def __init__(self, name, ns):
        self.name = name
        self.ns = ns


class VBoundMethod:
    def __init__(self, recv, name):
        self.recv = recv
        self.name = name


class VExcInstance:
    def __init__(self, exc, msg=None):
        self.exc = exc
        self.msg = msg


class VStr:
    """opaque string built by formatting; text not tracked"""

    def __init__(self, desc="?"):
        self.desc = desc


NAN = object()   # the float nan as a distinguished token (only flows, never computed with)
INF = object()
