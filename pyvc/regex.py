"""Python `re` syntax (the subset used by formulas.py and the EBNF terminals of formula_grammar.rst)
-> z3 regular expressions."""
import z3


class RegexError(Exception):
    pass


def parse(pattern):
    p = _Parser(pattern)
    r = p.alt()
    if p.i != len(pattern):
        raise RegexError("trailing input at %d in %r" % (p.i, pattern))
    return r


EPS = z3.Re("")


class _Parser:
    def __init__(self, s):
        self.s = s
        self.i = 0

    def peek(self):
        return self.s[self.i] if self.i < len(self.s) else None

    def alt(self):
        branches = [self.seq()]
        while self.peek() == "|":
            self.i += 1
            branches.append(self.seq())
        if len(branches) == 1:
            return branches[0]
        return z3.Union(*branches)

    def seq(self):
        items = []
        while self.peek() is not None and self.peek() not in "|)":
            items.append(self.postfix())
        if not items:
            return EPS
        if len(items) == 1:
            return items[0]
        return z3.Concat(*items)

    def postfix(self):
        a = self.atom()
        while self.peek() in ("?", "*", "+"):
            c = self.peek()
            self.i += 1
            a = {"?": z3.Option, "*": z3.Star, "+": z3.Plus}[c](a)
        return a

    def atom(self):
        c = self.peek()
        if c == "(":
            self.i += 1
            if self.s.startswith("?:", self.i):
                self.i += 2
            r = self.alt()
            if self.peek() != ")":
                raise RegexError("missing )")
            self.i += 1
            return r
        if c == "[":
            return self.charclass()
        if c == "\\":
            self.i += 2
            return z3.Re(self.s[self.i - 1])
        if c == ".":
            self.i += 1
            return z3.AllChar(z3.ReSort(z3.StringSort()))
        if c in "?*+":
            raise RegexError("dangling quantifier")
        self.i += 1
        return z3.Re(c)

    def charclass(self):
        self.i += 1
        parts = []
        if self.peek() == "^":
            raise RegexError("negated class")
        while self.peek() != "]":
            a = self.peek()
            if a is None:
                raise RegexError("unterminated class")
            if a == "\\":
                self.i += 1
                a = self.peek()
            self.i += 1
            if self.peek() == "-" and self.i + 1 < len(self.s) and self.s[self.i + 1] != "]":
                b = self.s[self.i + 1]
                self.i += 2
                parts.append(z3.Range(a, b))
            else:
                parts.append(z3.Re(a))
        self.i += 1
        if len(parts) == 1:
            return parts[0]
        return z3.Union(*parts)


def equivalent_goal(r1, r2, name="s"):
    """formula that is valid iff the two languages are equal"""
    s = z3.String(name)
    return z3.InRe(s, r1) == z3.InRe(s, r2), s


def subset_goal(r1, r2, name="s"):
    s = z3.String(name)
    return z3.Implies(z3.InRe(s, r1), z3.InRe(s, r2)), s
