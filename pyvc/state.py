"""Path state: path condition, branching by re-execution, obligations."""
import z3
from .values import Infeasible

FEAS_TIMEOUT_MS = 1500


class Obligation:
    def __init__(self, name, pc, goal, kind="post", info=None):
        self.name = name
        self.pc = list(pc)
        self.goal = goal
        self.kind = kind          # post | pre | inv-establish | inv-preserve | raises | frame | lemma | cover | canary
        self.info = info or {}
        self.status = None        # discharged | sat | unknown | unsupported
        self.backend = None
        self.model = None
        self.time_s = 0.0
        self.expect_sat = False   # canary / cover obligations

    def smt2(self):
        s = z3.Solver()
        for f in self.pc:
            s.add(f)
        if self.expect_sat and self.kind == "cover":
            s.add(self.goal)
        else:
            s.add(z3.Not(self.goal))
        return s.to_smt2()


class State:
    """one execution along a prescribed decision prefix"""

    def __init__(self, prefix=(), name="path"):
        self.prefix = list(prefix)
        self.decisions = []
        self.forks = 0
        self.alternatives = []
        self.pc = []
        self.solver = z3.Solver()
        self.solver.set("timeout", FEAS_TIMEOUT_MS)
        self.obligations = []
        self.counter = {}
        self.name = name
        self.trace = []
        self.ghost = {}
        self.sqrt_cache = {}
        self.uf_terms = {}      # theory bookkeeping (exp terms etc.)
        self.inputs = {}        # name -> z3 leaves of the symbolic inputs (for models)
        self.assumptions_used = set()
        self.depth = 0
        # pi is one real constant with a certified enclosure (DESIGN 2.4)
        _pi = z3.Real("pi")
        self.assume(z3.And(_pi > z3.RealVal("3.14159265358"), _pi < z3.RealVal("3.14159265359")))

    # -------------------------------------------------------------- symbols
    def fresh_name(self, base):
        n = self.counter.get(base, 0)
        self.counter[base] = n + 1
        return base if n == 0 else "%s!%d" % (base, n)

    def fresh(self, base, sort):
        return z3.Const(self.fresh_name(base), sort)

    # -------------------------------------------------------------- path condition
    def assume(self, f):
        if isinstance(f, bool):
            if not f:
                raise Infeasible()
            return
        self.pc.append(f)
        self.solver.add(f)

    def feasible(self, cond=None):
        if cond is None:
            r = self.solver.check()
        else:
            r = self.solver.check(cond)
        return r != z3.unsat

    def branch(self, cond):
        """decide a symbolic condition; forks by re-execution"""
        if isinstance(cond, bool):
            return cond
        cond = z3.simplify(cond)
        if z3.is_true(cond):
            return True
        if z3.is_false(cond):
            return False
        idx = len(self.decisions)
        if idx < len(self.prefix):
            d, forked = self.prefix[idx]
        else:
            t = self.feasible(cond)
            f = self.feasible(z3.Not(cond))
            forked = False
            if t and f:
                self.alternatives.append(self.decisions[:idx] + [(False, True)])
                d = True
                forked = True
            elif t:
                d = True
            elif f:
                d = False
            else:
                raise Infeasible()
        self.decisions.append((d, forked))
        if forked:
            self.forks += 1
        self.assume(cond if d else z3.Not(cond))
        return d

    def choose(self, n, label="choice"):
        """n-way nondeterministic choice (used for loop establish/preserve/exit forks)"""
        for k in range(n - 1):
            idx = len(self.decisions)
            if idx < len(self.prefix):
                d, _ = self.prefix[idx]
            else:
                self.alternatives.append(self.decisions[:idx] + [(False, True)])
                d = True
            self.decisions.append((d, True))
            self.forks += 1
            if d:
                return k
        return n - 1

    # -------------------------------------------------------------- obligations
    def oblige(self, name, goal, kind="post", info=None, assume_after=True):
        if isinstance(goal, bool):
            goal = z3.BoolVal(goal)
        ob = Obligation(name, self.pc, goal, kind, info)
        self.obligations.append(ob)
        if assume_after:
            self.assume(goal)
        return ob

    def cover(self, name, info=None):
        """reachability obligation: the current path condition must be satisfiable"""
        ob = Obligation(name, self.pc, z3.BoolVal(True), "cover", info)
        ob.expect_sat = True
        self.obligations.append(ob)
        return ob


class PathResult:
    def __init__(self, state, outcome, value=None, exc=None, msg=None, lineno=None):
        self.state = state
        self.outcome = outcome      # return | raise | unsupported | cut
        self.value = value
        self.exc = exc
        self.msg = msg
        self.lineno = lineno


def explore(run, max_paths=600):
    """run(state) -> PathResult; explores all decision prefixes"""
    from .values import Unsupported, PyRaise
    work = [[]]
    results = []
    while work:
        prefix = work.pop()
        st = State(prefix)
        try:
            res = run(st)
        except Infeasible:
            work.extend(st.alternatives)
            continue
        except Unsupported as e:
            res = PathResult(st, "unsupported", msg=str(e))
        results.append(res)
        work.extend(st.alternatives)
        if len(results) > max_paths:
            results.append(PathResult(State(), "unsupported", msg="path budget exceeded"))
            break
    return results
