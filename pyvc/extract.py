"""Mechanical extraction of the *real* function bodies from /repo's working tree.

Every run re-reads the source files with ``ast``.  A target is

    periodictable.formulas._count_atoms                      module-level def
    periodictable.formulas.Formula.__rmul__                  method
    periodictable.formulas.formula_grammar::convert_element  nested def
    periodictable.formulas.formula_grammar::lambda@symbol    lambda passed to <name>.setParseAction(...)
    periodictable.core.delayed_load::getter::getfn           nested twice
    periodictable.formulas.Formula.natural_density@setter    property setter

What extraction drops: docstrings and comments (comments never reach the AST;
a leading string-constant expression statement is removed from the body that
is executed symbolically).  Nothing else.
"""
import ast
import hashlib
import os

REPO = os.environ.get("VERIF_REPO", "/repo")

_MODCACHE = {}


class ExtractError(Exception):
    pass


class Module:
    def __init__(self, modname):
        self.modname = modname
        rel = modname.replace(".", "/")
        path = os.path.join(REPO, rel + ".py")
        if not os.path.exists(path):
            path = os.path.join(REPO, rel, "__init__.py")
        if not os.path.exists(path):
            raise ExtractError("module %s not found under %s" % (modname, REPO))
        self.path = path
        with open(path, encoding="utf-8") as fh:
            self.source = fh.read()
        self.tree = ast.parse(self.source, filename=path)
        self.lines = self.source.split("\n")

    def toplevel(self, name):
        for node in self.tree.body:
            if isinstance(node, (ast.FunctionDef, ast.ClassDef)) and node.name == name:
                return node
        return None

    def assignments(self):
        """name -> value AST of module-level simple assignments (last one wins)."""
        out = {}
        for node in self.tree.body:
            if isinstance(node, ast.Assign) and len(node.targets) == 1 \
                    and isinstance(node.targets[0], ast.Name):
                out[node.targets[0].id] = node.value
        return out

    def imports(self):
        """local name -> (module, attr|None) for module-level imports."""
        out = {}
        pkg = self.modname.rsplit(".", 1)[0] if "." in self.modname else self.modname
        for node in ast.walk(self.tree):
            if isinstance(node, ast.ImportFrom):
                base = node.module or ""
                if node.level:
                    parts = self.modname.split(".")
                    # a module file: level 1 = its package
                    up = parts[:len(parts) - node.level] if not self.path.endswith("__init__.py") \
                        else parts[:len(parts) - node.level + 1]
                    base = ".".join(up + ([node.module] if node.module else []))
                for a in node.names:
                    out[a.asname or a.name] = (base, a.name)
            elif isinstance(node, ast.Import):
                for a in node.names:
                    out[a.asname or a.name.split(".")[0]] = (a.name, None)
        return out


def module(modname):
    key = (REPO, modname)
    if key not in _MODCACHE:
        _MODCACHE[key] = Module(modname)
    return _MODCACHE[key]


def clear_cache():
    _MODCACHE.clear()


def _strip_doc(body):
    if body and isinstance(body[0], ast.Expr) and isinstance(body[0].value, ast.Constant) \
            and isinstance(body[0].value.value, str):
        return body[1:] or [ast.Pass()]
    return body


class Extracted:
    """A function (def or lambda) taken from the working tree."""

    def __init__(self, target, mod, node, cls=None, kind="def"):
        self.target = target
        self.mod = mod
        self.node = node
        self.cls = cls
        self.kind = kind
        self.lineno = node.lineno
        self.end_lineno = node.end_lineno
        if getattr(node, "after_nodes", None):
            seg = "\n".join(ast.get_source_segment(mod.source, n) or "" for n in node.after_nodes)
        else:
            seg = ast.get_source_segment(mod.source, getattr(node, "source_node", None) or node) or ""
        self.source = seg
        self.sha256 = hashlib.sha256(seg.encode()).hexdigest()
        self.decorators = [ast.unparse(d) for d in getattr(node, "decorator_list", [])]
        if isinstance(node, ast.Lambda):
            self.body = [ast.Return(value=node.body)]
            ast.copy_location(self.body[0], node)
            ast.fix_missing_locations(self.body[0])
            self.args = node.args
            self.name = "<lambda>"
        else:
            self.body = _strip_doc(node.body)
            self.args = node.args
            self.name = node.name

    def describe(self):
        return {"target": self.target,
                "file": os.path.relpath(self.mod.path, REPO),
                "lines": [self.lineno, self.end_lineno],
                "sha256": self.sha256}


def _find_in(body, name):
    """find def/class `name` anywhere (depth first, statement order) in a body."""
    for node in body:
        for sub in ast.walk(node):
            if isinstance(sub, (ast.FunctionDef, ast.ClassDef)) and sub.name == name:
                return sub
    return None


def _find_lambda(fnode, spec):
    """spec: 'lambda@recv' -> lambda that is an argument of recv.<anything>(...);
    'lambda#k' -> k-th lambda (1-based) in source order."""
    lambdas = [n for n in ast.walk(fnode) if isinstance(n, ast.Lambda)]
    lambdas.sort(key=lambda n: (n.lineno, n.col_offset))
    if spec.startswith("lambda#"):
        k = int(spec[7:])
        if 1 <= k <= len(lambdas):
            return lambdas[k - 1]
        return None
    recv = spec[7:]
    for call in ast.walk(fnode):
        if isinstance(call, ast.Call) and isinstance(call.func, ast.Attribute) \
                and isinstance(call.func.value, ast.Name) and call.func.value.id == recv:
            for a in call.args:
                if isinstance(a, ast.Lambda):
                    return a
    return None


def extract(target):
    """Resolve a target string to an Extracted function."""
    head, *nested = target.split("::")
    parts = head.split(".")
    # longest module prefix that exists
    mod = None
    for i in range(len(parts), 0, -1):
        try:
            mod = module(".".join(parts[:i]))
            rest = parts[i:]
            break
        except ExtractError:
            continue
    if mod is None:
        raise ExtractError("cannot resolve module of %s" % target)
    if not rest:
        raise ExtractError("target %s names a module" % target)
    cls = None
    accessor = None
    last = rest[-1]
    if "@" in last and not last.startswith("lambda@"):
        last, accessor = last.split("@", 1)
        rest = rest[:-1] + [last]
    node = mod.toplevel(rest[0])
    if node is None:
        raise ExtractError("%s: no top-level %s in %s" % (target, rest[0], mod.path))
    for nm in rest[1:]:
        if isinstance(node, ast.ClassDef):
            cls = node
            cands = [n for n in node.body if isinstance(n, ast.FunctionDef) and n.name == nm]
            if accessor:
                cands = [n for n in cands if any(
                    isinstance(d, ast.Attribute) and d.attr == accessor for d in n.decorator_list)]
            else:
                # plain method or property getter
                cands = [n for n in cands if not any(
                    isinstance(d, ast.Attribute) and d.attr in ("setter", "deleter")
                    for d in n.decorator_list)]
            if not cands:
                raise ExtractError("%s: no method %s" % (target, nm))
            node = cands[0]
        else:
            raise ExtractError("%s: %s is not a class" % (target, node.name))
    for nm in nested:
        if nm.startswith("loop#"):
            # the body of the k-th loop (source order, own loops only) as a parameterless function whose
            # free variables (loop targets included) are supplied by the contract's closure
            spec_ = nm[5:]
            outs = []
            if ">" in spec_:
                spec_, o = spec_.split(">", 1)
                outs = [x for x in o.split(",") if x]
            k = int(spec_)
            own = [n for n in ast.walk(node) if isinstance(n, (ast.For, ast.While))]
            own.sort(key=lambda n: (n.lineno, n.col_offset))
            if not 1 <= k <= len(own):
                raise ExtractError("%s: loop %d not found" % (target, k))
            loop = own[k - 1]
            fn = ast.FunctionDef(name="loop%d_body" % k, args=ast.arguments(posonlyargs=[], args=[], vararg=None, kwonlyargs=[],
                                                                              kw_defaults=[], kwarg=None, defaults=[]),
                                 body=list(loop.body) + ([ast.Return(value=ast.Tuple(elts=[ast.Name(id=o, ctx=ast.Load()) for o in outs],
                                                                                      ctx=ast.Load()))] if outs else []),
                                 decorator_list=[], returns=None, type_comment=None)
            ast.fix_missing_locations(fn)
            ast.copy_location(fn, loop)
            fn.end_lineno = loop.end_lineno
            fn.end_col_offset = loop.end_col_offset
            fn.loop_target = loop.target if isinstance(loop, ast.For) else None
            fn.loop_iter = loop.iter if isinstance(loop, ast.For) else None
            fn.source_node = loop
            node = fn
            continue
        if nm.startswith("after#"):
            # the statements that follow the k-th loop in its own block, up to the end of that block, as a parameterless
            # function whose free variables are supplied by the contract's closure (what runs once the loop is done)
            k = int(nm[6:])
            own = [n for n in ast.walk(node) if isinstance(n, (ast.For, ast.While))]
            own.sort(key=lambda n: (n.lineno, n.col_offset))
            if not 1 <= k <= len(own):
                raise ExtractError("%s: loop %d not found" % (target, k))
            loop = own[k - 1]
            rest = None
            for parent in ast.walk(node):
                for field in ("body", "orelse", "finalbody"):
                    lst = getattr(parent, field, None)
                    if isinstance(lst, list) and any(x is loop for x in lst):
                        rest = lst[[i for i, x in enumerate(lst) if x is loop][0] + 1:]
            if not rest:
                raise ExtractError("%s: nothing follows loop %d" % (target, k))
            fn = ast.FunctionDef(name="after_loop%d" % k, args=ast.arguments(posonlyargs=[], args=[], vararg=None, kwonlyargs=[],
                                                                               kw_defaults=[], kwarg=None, defaults=[]),
                                 body=list(rest), decorator_list=[], returns=None, type_comment=None)
            ast.fix_missing_locations(fn)
            ast.copy_location(fn, rest[0])
            fn.end_lineno = rest[-1].end_lineno
            fn.end_col_offset = rest[-1].end_col_offset
            fn.source_node = None
            fn.after_nodes = rest
            node = fn
            continue
        if nm.startswith("lambda"):
            lam = _find_lambda(node, nm)
            if lam is None:
                raise ExtractError("%s: lambda %s not found" % (target, nm))
            node = lam
        else:
            sub = _find_in(node.body, nm)
            if sub is None:
                raise ExtractError("%s: nested %s not found" % (target, nm))
            node = sub
    if isinstance(node, ast.ClassDef):
        raise ExtractError("%s is a class" % target)
    return Extracted(target, mod, node, cls=cls,
                     kind="lambda" if isinstance(node, ast.Lambda) else "def")


def class_node(modname, clsname):
    node = module(modname).toplevel(clsname)
    if not isinstance(node, ast.ClassDef):
        raise ExtractError("no class %s in %s" % (clsname, modname))
    return node
