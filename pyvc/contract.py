"""Units of verification: one real function against its sidecar contract."""
import time
import z3

from . import extract
from .interp import Interp, run_function
from .values import VFunc, Unsupported


LOOP_LIBRARY = {}     # (function, loop ordinal) -> loop contracts declared by the units constructed so far


class Unit:
    """one function under contract.

    make_inputs(st, interp) -> (args, kwargs, C): creates the symbolic inputs and assumes the
        precondition.
    post(st, interp, C, res): records the obligations of the exit `res` (return / raise).
    """

    def __init__(self, name, target, make_inputs, post, contracts=None, inline=None, loops=None,
                 env=None, options=None, closure=None, replay=None, doc="", max_paths=600,
                 allow_unreturned_cut=True, prop_clause=None, expect_paths=None, writes=None, arrays=None):
        self.name = name
        self.target = target
        self.make_inputs = make_inputs
        self.post = post
        self.contracts = contracts or {}
        self.inline = inline or set()
        self.loops = loops or {}
        for k_, v_ in self.loops.items():
            LOOP_LIBRARY.setdefault(k_, []).append(v_)
        self.env = env or {}
        self.options = options or {}
        self.closure = closure
        self.replay = replay
        self.doc = doc
        self.max_paths = max_paths
        self.prop_clause = prop_clause
        # frame: attribute names the function may write on its (object) inputs; anything else written,
        # added or removed is a failed `frame.auto` obligation (catches memoisation / hidden state)
        self.writes = set(writes or ())
        # parameter names (or positions) that callers may pass as numpy arrays: in-place updates of them are frame violations
        self.arrays = list(arrays or ())

    def verify(self):
        t0 = time.time()
        res = UnitResult(self)
        try:
            ext = extract.extract(self.target)
        except extract.ExtractError as e:
            res.unsupported.append("extraction failed: %s" % e)
            return res
        res.ext = ext
        # decorators wrap the function: only the ones whose meaning the engine knows are accepted
        known = {"property", "staticmethod", "classmethod", "require_keywords"}
        odd = [d for d in ext.decorators if d not in known and not d.endswith(".setter")]
        if odd:
            res.unsupported.append("decorator(s) %s change the function's behaviour in ways the engine does not model" % odd)
            return res
        interp = Interp(contracts=self.contracts, inline=self.inline, env_overrides=self.env,
                        options=self.options)
        # a loop of a helper that this unit reaches by inlining (a refactoring moved the caller's loop there) is cut at the
        # loop contract some other unit declares for that very loop, when there is exactly one such contract; its
        # establishment and preservation obligations are generated here, in this unit, so nothing is assumed
        interp.loop_contracts = {k_: v_[0] for k_, v_ in LOOP_LIBRARY.items()
                                 if all(x is v_[0] or x == v_[0] for x in v_) and k_[0].split("::")[0] != self.target.split("::")[0]}
        interp.loop_contracts.update(self.loops)
        res.interp = interp
        closure = self.closure(interp) if callable(self.closure) else (self.closure or [])
        if "::loop#" in self.target or "::after#" in self.target:
            # a contract on an extracted block names the block's free variables (closure) and outputs: a name that the block's
            # text does not mention means that the contract was written for another text (renamed temporary): undecided
            import ast as _ast
            mentioned = set()
            src = getattr(ext.node, "source_node", None)
            orig = list(src.body) if src is not None else list(getattr(ext.node, "after_nodes", None) or ext.node.body)
            nodes = orig + [x for x in (getattr(ext.node, "loop_target", None), getattr(ext.node, "loop_iter", None)) if x is not None]
            for top in nodes:
                for n in _ast.walk(top):
                    if isinstance(n, _ast.Name):
                        mentioned.add(n.id)
            supplied = set()
            for d in closure:
                if isinstance(d, dict):
                    supplied |= set(d)
            # (the closure is filled by make_inputs; its keys are known only then: checked again there)
            self._block_names = mentioned
            outs = self.target.split(">", 1)[1].split(",") if ">" in self.target.split("::")[-1] else []
            missing = sorted(k for k in supplied | set(o for o in outs if o) if k not in mentioned)
            if missing:
                res.unsupported.append("the contract supplies %s to this block, which its text does not mention (renamed temporary?): the contract does not apply" % missing)
                return res
        fn = VFunc(ext, closure, qualname=self.target)

        def _objects(args, kwargs, C):
            from .values import VObj, VTuple, VList, VDict
            seen, out = set(), []

            def walk(v, depth=0):
                if id(v) in seen or depth > 4:
                    return
                seen.add(id(v))
                if isinstance(v, VObj):
                    out.append(v)
                    for x in list(v.attrs.values()):
                        walk(x, depth + 1)
                elif isinstance(v, (VTuple, VList)):
                    for x in v.items:
                        walk(x, depth + 1)
                elif isinstance(v, VDict):
                    for k, x in v.entries:
                        walk(k, depth + 1)
                        walk(x, depth + 1)
                elif isinstance(v, (list, tuple)):
                    for x in v:
                        walk(x, depth + 1)
                elif isinstance(v, dict):
                    for x in v.values():
                        walk(x, depth + 1)
            for a in args:
                walk(a)
            for a in kwargs.values():
                walk(a)
            if isinstance(C, dict):
                for a in C.values():
                    walk(a)
            return out

        def mk(st):
            args, kwargs, C = self.make_inputs(st, interp)
            if getattr(self, "_block_names", None) is not None:
                supplied = set()
                for d in closure:
                    if isinstance(d, dict):
                        supplied |= set(d)
                missing = sorted(k for k in supplied if k not in self._block_names)
                if missing:
                    raise Unsupported("the contract supplies %s to this block, which its text does not mention (renamed temporary?): "
                                      "the contract does not apply" % missing)
            objs = _objects(args, kwargs, C)
            st.ghost["frame_snapshot"] = [(o, dict(o.attrs)) for o in objs]
            st.ghost["illegal_writes"] = []
            arr = []
            # by default the parameters that the library documents as "scalar or vector" are array-capable
            for nm in (self.arrays or ["wavelength", "energy", "Q", "q", "stol", "rest_times", "weights"]):
                if isinstance(nm, int) and nm < len(args):
                    arr.append(("#%d" % nm, args[nm]))
                elif nm in kwargs:
                    arr.append((nm, kwargs[nm]))
                else:
                    names = [a.arg for a in ext.args.args]
                    if nm in names and names.index(nm) < len(args):
                        arr.append((nm, args[names.index(nm)]))
            st.ghost["array_args"] = arr
            return args, kwargs, C

        def chk(st, C, r):
            if r.outcome == "cut":
                return
            if r.outcome in ("return", "raise"):
                n0 = len(st.obligations)
                self.post(st, interp, C, r)
                if "*" not in self.writes:
                    import z3 as _z3
                    bad = []
                    for o, snap in st.ghost.get("frame_snapshot", []):
                        for k in set(o.attrs) | set(snap):
                            if k in self.writes or k.startswith("__"):
                                continue
                            if k not in snap or k not in o.attrs or o.attrs[k] is not snap[k]:
                                from .values import VList as _VL, VDict as _VD
                                bad.append("%s.%s" % (o.cls[1] if isinstance(o.cls, tuple) else o.cls, k))
                    bad += list(st.ghost.get("illegal_writes", []))
                    from .interp import _flat_items
                    for (mn, nm), (cont, snap) in st.ghost.get("module_snapshot", {}).items():
                        now = _flat_items(cont)
                        if "module:" + nm in self.writes:
                            continue
                        if len(now) != len(snap) or any(a is not b for a, b in zip(now, snap)):
                            bad.append("module state %s.%s" % (mn.split(".")[-1], nm))
                    st.oblige("frame.auto: writes nothing outside its frame %s" % (sorted(self.writes) or "[]"),
                              _z3.BoolVal(not bad), kind="frame", info={"written": sorted(set(bad))}, assume_after=False)
                for ob in st.obligations[n0:]:
                    ob.info.setdefault("exit", r.outcome if r.outcome == "return" else "raise %s" % r.exc)
        try:
            paths = run_function(interp, fn, mk, chk, max_paths=self.max_paths)
        except Unsupported as e:
            res.unsupported.append(str(e))
            paths = []
        seen = {}
        dedupe = set()
        for p in paths:
            res.paths += 1
            if p.outcome == "unsupported":
                res.unsupported.append(p.msg)
            res.outcomes[p.outcome if p.outcome != "raise" else "raise " + str(p.exc)] = \
                res.outcomes.get(p.outcome if p.outcome != "raise" else "raise " + str(p.exc), 0) + 1
            for ob in p.state.obligations:
                sig = (ob.name, ob.kind, ob.goal.get_id() if hasattr(ob.goal, "get_id") else str(ob.goal),
                       tuple(f.get_id() for f in ob.pc))
                if sig in dedupe:
                    continue
                dedupe.add(sig)
                # name obligations uniquely and stably: unit / clause [#k for the k-th path reaching it]
                base = "%s/%s" % (self.name, ob.name)
                k = seen.get(base, 0)
                seen[base] = k + 1
                ob.fullname = base if k == 0 else "%s#%d" % (base, k)
                ob.unit = self
                res.obligations.append(ob)
            res.assumptions |= p.state.assumptions_used
        res.assumed_lib = set(interp.assumed)
        res.functions = dict(interp.functions_seen)
        res.functions[self.target] = ext
        res.gen_time = time.time() - t0
        return res


class UnitResult:
    def __init__(self, unit):
        self.unit = unit
        self.ext = None
        self.interp = None
        self.obligations = []
        self.unsupported = []
        self.paths = 0
        self.outcomes = {}
        self.assumptions = set()
        self.assumed_lib = set()
        self.functions = {}
        self.gen_time = 0.0


class Lemma:
    """a fact about spec functions proved by an explicit induction schema.  `build()` returns a list
    of States, each holding the obligations of one case (base / step); nothing is assumed by fiat.
    Other units use the lemma only through instances of its statement."""

    def __init__(self, name, build, doc="", prop_clause=None, advisory=False, replay=None):
        self.name = name
        self.build = build
        self.doc = doc
        self.target = "lemma:" + name
        self.replay = replay
        # advisory: a condition on the source text that is sufficient, not necessary, for the property
        self.advisory = advisory
        self.prop_clause = prop_clause

    def verify(self):
        res = UnitResult(self)
        t0 = time.time()
        try:
            states = self.build()
        except Unsupported as e:
            res.unsupported.append(str(e))
            states = []
        from .state import Obligation
        import z3 as _z3
        # source-reading lemmas list what they read (function targets) in build.reads
        for t in getattr(self.build, "reads", []) or []:
            try:
                res.functions[t] = extract.extract(t)
            except extract.ExtractError as e:
                res.unsupported.append("extraction failed: %s" % e)
        for st in states:
            if st.obligations:
                # vacuity guard: the hypotheses of this case must not be contradictory
                first = st.obligations[0]
                cov = Obligation("%s.hypotheses-satisfiable" % first.name, first.pc, _z3.BoolVal(True), "cover")
                cov.expect_sat = True
                cov.fullname = "lemma:%s/%s.hypotheses-satisfiable" % (self.name, first.name)
                cov.unit = self
                res.obligations.append(cov)
            for ob in st.obligations:
                ob.fullname = "lemma:%s/%s" % (self.name, ob.name)
                ob.unit = self
                if ob.kind == "post":
                    ob.kind = "lemma"
                res.obligations.append(ob)
        res.paths = len(states)
        res.outcomes = {"lemma-case": len(states)}
        res.gen_time = time.time() - t0
        return res
