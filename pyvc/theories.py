"""Theories for symbolic values of uninterpreted sorts.

AtomTheory  - table atoms (Element / Isotope / Ion) as an uninterpreted sort with attribute
              functions; which attributes exist on which kind and how Isotope/Ion delegate to
              `.element` follows core.py (L4, A5).
SeqTheory   - formula structures: sequences of (count, fragment), fragment = atom | sub-sequence
              (L2), with the composition denotation `den` defined by unfolding.
"""
import z3

from .values import *   # noqa
from .values import Unsupported, PyRaise, Cx, VTuple, VList, VDict, VMap, VObj, VSym, VOpt, VStr
from . import spec

Atom = z3.DeclareSort("Atom")
KIND = z3.Function("atom.kind", Atom, z3.IntSort())          # 0 element, 1 isotope, 2 ion
BASE = z3.Function("atom.element_of", Atom, Atom)            # .element of an isotope or ion
CHARGE = z3.Function("atom.charge", Atom, z3.IntSort())
ISO = z3.Function("atom.isotope_number", Atom, z3.IntSort())
NUMBER = z3.Function("atom.number", Atom, z3.IntSort())
MASS = z3.Function("atom.mass", Atom, z3.RealSort())
SYMBOL = z3.Function("atom.symbol", Atom, z3.StringSort())
OWNSYM = z3.Function("atom.has_own_symbol", Atom, z3.BoolSort())   # 'symbol' in __dict__ (D, T)
DENS_NONE = z3.Function("atom.density_is_none", Atom, z3.BoolSort())
DENS = z3.Function("atom.density", Atom, z3.RealSort())
COVR_NONE = z3.Function("atom.covalent_radius_is_none", Atom, z3.BoolSort())
COVR = z3.Function("atom.covalent_radius", Atom, z3.RealSort())
HAS_SLD = z3.Function("atom.has_sld", Atom, z3.BoolSort())
IS_ED = z3.Function("atom.is_energy_dependent", Atom, z3.BoolSort())
B_C0 = z3.Function("atom.b_c", Atom, z3.RealSort())
B_RE = z3.Function("atom.b_c_re", Atom, z3.RealSort(), z3.RealSort())     # (atom, wavelength)
B_IM = z3.Function("atom.b_c_im", Atom, z3.RealSort(), z3.RealSort())
SIG_S = z3.Function("atom.sigma_s", Atom, z3.RealSort(), z3.RealSort())
NATURAL = z3.Function("atom.natural_of", Atom, Atom)     # spec: same atom with the isotope replaced by its element
XRAY_NONE = z3.Function("atom.xray_table_is_none", Atom, z3.BoolSort())
F1 = z3.Function("atom.f1", Atom, z3.RealSort(), z3.RealSort())
F2 = z3.Function("atom.f2", Atom, z3.RealSort(), z3.RealSort())
ELECTRON_MASS = None


def _raise(exc, msg=None, node=None):
    raise PyRaise(exc, msg, getattr(node, "lineno", None))


class AtomTheory:
    """attribute semantics of a symbolic table atom"""
    name = "Atom"

    def __init__(self, electron_mass):
        self.me = electron_mass       # exact rational read from constants.py

    def wf(self, a):
        """well-formedness of one atom (what core.py's constructors guarantee; L1/L4).
        The ion mass equation is Ion.mass's own contract, discharged separately."""
        k = KIND(a)
        b = BASE(a)
        return z3.And(
            k >= 0, k <= 2,
            z3.Implies(k == 0, z3.And(CHARGE(a) == 0, ISO(a) == 0, z3.Not(OWNSYM(a)))),
            z3.Implies(k == 1, z3.And(KIND(b) == 0, CHARGE(a) == 0, ISO(a) > 0,
                                      NUMBER(a) == NUMBER(b),
                                      z3.Implies(z3.Not(OWNSYM(a)), SYMBOL(a) == SYMBOL(b)))),
            z3.Implies(k == 2, z3.And(z3.Or(KIND(b) == 0, KIND(b) == 1), CHARGE(a) != 0,
                                      CHARGE(b) == 0,
                                      ISO(a) == ISO(b), NUMBER(a) == NUMBER(b), SYMBOL(a) == SYMBOL(b),
                                      OWNSYM(a) == False,
                                      MASS(a) == MASS(b) - z3.RealVal(self.me) * z3.ToReal(CHARGE(a)),
                                      DENS_NONE(a) == DENS_NONE(b), DENS(a) == DENS(b),
                                      COVR_NONE(a) == COVR_NONE(b), COVR(a) == COVR(b),
                                      z3.Implies(KIND(b) == 1, z3.And(KIND(BASE(b)) == 0,
                                                                      NUMBER(b) == NUMBER(BASE(b)),
                                                                      ISO(b) > 0)))),
            MASS(a) > 0,
        )

    def new(self, st, name):
        a = st.fresh(name, Atom)
        st.assume(self.wf(a))
        return VSym(a, self)

    def sym(self, st, expr):
        """wrap an Atom-sorted expression, assuming its well-formedness"""
        key = ("wf", expr.get_id())
        if key not in st.ghost:
            st.ghost[key] = True
            st.assume(self.wf(expr))
        return VSym(expr, self)

    # ---- protocol used by the interpreter
    def truth(self, interp, st, v):
        return True

    def equals(self, interp, st, a, b):
        if isinstance(b, VSym) and b.theory is self:
            return a.expr == b.expr
        return False

    def isinstance(self, interp, st, v, names):
        r = False
        for n in names:
            if n == "Element":
                r = interp.or_(r, KIND(v.expr) == 0)
            elif n == "Isotope":
                r = interp.or_(r, KIND(v.expr) == 1)
            elif n == "Ion":
                r = interp.or_(r, KIND(v.expr) == 2)
            elif n == "object":
                return True
        return r

    def getattr(self, interp, st, v, name, node=None):
        a = v.expr
        side = st.ghost.get("atom_side_store")
        if side and (a.get_id(), name) in side:
            return side[(a.get_id(), name)]
        first = st.ghost.get("atom_attr_first")
        if first is not None:
            r = first(interp, st, v, name, node)
            if r is not NotImplemented:
                return r
        if name == "element":
            if st.branch(KIND(a) == 0):
                _raise("AttributeError", "'Element' object has no attribute 'element'", node)
            return self.sym(st, BASE(a))
        if name == "charge":
            return CHARGE(a)
        if name == "isotope":
            # Element has no isotope attribute; Isotope has it; Ion delegates to its element
            if st.branch(z3.Or(KIND(a) == 0, z3.And(KIND(a) == 2, KIND(BASE(a)) == 0))):
                _raise("AttributeError", "no attribute 'isotope'", node)
            return ISO(a)
        if name == "mass":
            return MASS(a)
        if name == "symbol":
            return SYMBOL(a)
        if name == "number":
            return NUMBER(a)
        if name in ("density", "_density"):
            # _density is the loaded element field; density the served (element or scaled isotope) value
            return VOpt(DENS_NONE(a), DENS(a))
        if name == "covalent_radius":
            return VOpt(COVR_NONE(a), COVR(a))
        if name == "__dict__":
            return VSym(a, DictOfAtom(self))
        if name == "neutron":
            # b_c is None exactly for atoms without neutron data (HAS_SLD here means "has data")
            return VObj("NeutronRec", {"atom": v, "is_energy_dependent": IS_ED(a),
                                       "b_c": VOpt(z3.Not(HAS_SLD(a)), B_C0(a))})
        if name == "xray":
            return VObj("XrayRec", {"atom": v})
        extra = st.ghost.get("atom_attr")
        if extra is not None:
            r = extra(interp, st, v, name, node)
            if r is not NotImplemented:
                return r
        raise Unsupported("atom attribute %s" % name)

    def hasattr(self, interp, st, v, name):
        if name == "element":
            return KIND(v.expr) != 0       # isotopes and ions have one; elements do not
        if name in ("symbol", "mass", "number", "charge"):
            return True
        raise Unsupported("hasattr(atom, %r)" % name)

    def setattr(self, interp, st, v, name, value, node=None):
        h = st.ghost.get("atom_setattr")
        if h is not None:
            return h(interp, st, v, name, value, node)
        # a function that stores something on a table atom without the contract providing for it:
        # recorded as a frame violation (table atoms are shared, long-lived objects)
        st.ghost.setdefault("illegal_writes", []).append("atom.%s" % name)
        st.ghost.setdefault("atom_side_store", {})[(v.expr.get_id(), name)] = value
        return None

    def contains(self, interp, st, c, item):
        raise Unsupported("'in' on atom")

    def getitem(self, interp, st, v, idx, node=None):
        h = st.ghost.get("atom_getitem")
        if h is not None:
            return h(interp, st, v, idx, node)
        raise Unsupported("atom[...]")

    def len(self, interp, st, v):
        _raise("TypeError", "atom has no len()")

    def unpack(self, interp, st, v, n):
        _raise("TypeError", "cannot unpack atom")


class DictOfAtom:
    """atom.__dict__ - only the membership test `'symbol' in atom.__dict__` is modelled"""

    def __init__(self, th):
        self.th = th

    def contains(self, interp, st, c, item):
        if item == "symbol":
            a = c.expr
            # elements store symbol in their instance dict; isotopes only D/T; ions never
            return z3.Or(KIND(a) == 0, z3.And(KIND(a) == 1, OWNSYM(a)))
        raise Unsupported("membership %r in atom.__dict__" % (item,))

    def equals(self, interp, st, a, b):
        raise Unsupported("__dict__ equality")

    def truth(self, interp, st, v):
        return True


# ============================================================================ structures

Seq = z3.DeclareSort("Struct")
Frag = z3.Datatype("Frag")
Frag.declare("fatom", ("atom_of", Atom))
Frag.declare("fgroup", ("seq_of", Seq))
Frag = Frag.create()

SLEN = z3.Function("slen", Seq, z3.IntSort())
SCOUNT = z3.Function("scount", Seq, z3.IntSort(), z3.RealSort())
SFRAG = z3.Function("sfrag", Seq, z3.IntSort(), Frag)
SISTUPLE = z3.Function("is_tuple", Seq, z3.BoolSort())
DEPTH = z3.Function("depth", Seq, z3.IntSort())
DEN = z3.Function("den", Seq, Atom, z3.RealSort())                 # composition denotation
DENP = z3.Function("den_prefix", Seq, z3.IntSort(), Atom, z3.RealSort())
SUP = z3.Function("sup", Seq, Atom, z3.BoolSort())                 # a occurs as a leaf
SUPP = z3.Function("sup_prefix", Seq, z3.IntSort(), Atom, z3.BoolSort())
CONCAT = z3.Function("struct_concat", Seq, Seq, Seq)


def contrib(f, a):
    """contribution of one fragment to the count of atom a (per unit count)"""
    return z3.If(Frag.is_fatom(f), z3.If(Frag.atom_of(f) == a, z3.RealVal(1), z3.RealVal(0)),
                 DEN(Frag.seq_of(f), a))


def occurs(f, a):
    return z3.If(Frag.is_fatom(f), Frag.atom_of(f) == a, SUP(Frag.seq_of(f), a))


class SeqTheory:
    name = "Seq"

    def __init__(self, atom_theory):
        self.at = atom_theory

    def wf(self, s):
        return z3.And(SLEN(s) >= 0, DEPTH(s) >= 0)

    def new(self, st, name):
        s = st.fresh(name, Seq)
        st.assume(self.wf(s))
        return VSym(s, self)

    def sym(self, st, expr):
        key = ("wfs", expr.get_id())
        if key not in st.ghost:
            st.ghost[key] = True
            st.assume(self.wf(expr))
        return VSym(expr, self)

    # ---- definitional unfoldings (sound: each is an instance of the recursive definition)
    def unfold_prefix(self, st, s, i, a):
        """den_prefix(s, i+1, a) and sup_prefix(s, i+1, a) in terms of index i"""
        f = SFRAG(s, i)
        c = SCOUNT(s, i)
        sub = Frag.seq_of(f)
        contrib = z3.If(Frag.is_fatom(f), z3.If(Frag.atom_of(f) == a, z3.RealVal(1), z3.RealVal(0)), DEN(sub, a))
        occurs = z3.If(Frag.is_fatom(f), Frag.atom_of(f) == a, SUP(sub, a))
        st.assume(DENP(s, i + 1, a) == DENP(s, i, a) + c * contrib)
        st.assume(SUPP(s, i + 1, a) == z3.Or(SUPP(s, i, a), occurs))

    def base_prefix(self, st, s, a):
        st.assume(DENP(s, 0, a) == 0)
        st.assume(z3.Not(SUPP(s, 0, a)))

    def whole(self, st, s, a):
        st.assume(DEN(s, a) == DENP(s, SLEN(s), a))
        st.assume(SUP(s, a) == SUPP(s, SLEN(s), a))

    # ---- interpreter protocol
    def truth(self, interp, st, v):
        return st.branch(SLEN(v.expr) > 0)

    def equals(self, interp, st, a, b):
        if isinstance(b, VSym) and b.theory is self:
            return a.expr == b.expr
        if isinstance(b, str) or b is None or is_num(b):
            return False
        raise Unsupported("structure == other")

    def kind_is_tuple(self, v):
        k = getattr(v, "kind", None)
        if k == "tuple":
            return True
        if k == "list":
            return False
        return SISTUPLE(v.expr)

    def isinstance(self, interp, st, v, names):
        r = False
        for n in names:
            if n == "tuple":
                r = interp.or_(r, self.kind_is_tuple(v))
            elif n == "list":
                r = interp.or_(r, interp.not_(self.kind_is_tuple(v)))
        return r

    def len(self, interp, st, v):
        return SLEN(v.expr)

    def with_kind(self, v, kind):
        r = VSym(v.expr, self)
        r.kind = kind
        return r

    def to_list(self, interp, st, v):
        return self.with_kind(v, "list")

    def to_tuple(self, interp, st, v):
        return self.with_kind(v, "tuple")

    def concat(self, interp, st, a, b):
        """a + b for two sequences (A3 list/tuple concatenation): length and items by definition"""
        c = CONCAT(a.expr, b.expr)
        i = z3.Int("i!cat")
        st.assume(SLEN(c) == SLEN(a.expr) + SLEN(b.expr))
        if st.ghost.get("concat_items"):
            # item-wise definition, needed only where the concat lemma itself is proved
            st.assume(z3.ForAll([i], z3.Implies(z3.And(i >= 0, i < SLEN(a.expr)),
                                                z3.And(SCOUNT(c, i) == SCOUNT(a.expr, i), SFRAG(c, i) == SFRAG(a.expr, i)))))
            st.assume(z3.ForAll([i], z3.Implies(z3.And(i >= 0, i < SLEN(b.expr)),
                                                z3.And(SCOUNT(c, SLEN(a.expr) + i) == SCOUNT(b.expr, i),
                                                       SFRAG(c, SLEN(a.expr) + i) == SFRAG(b.expr, i)))))
        st.assume(DEPTH(c) >= 0)
        r = VSym(c, self)
        r.kind = getattr(a, "kind", None)
        return r

    def item(self, interp, st, v, i):
        s = v.expr
        f = SFRAG(s, i)
        st.assume(z3.Implies(Frag.is_fgroup(f), z3.And(DEPTH(Frag.seq_of(f)) < DEPTH(s),
                                                       DEPTH(Frag.seq_of(f)) >= 0,
                                                       SLEN(Frag.seq_of(f)) >= 0)))
        return VTuple([SCOUNT(s, i), VSym(f, FragTheory(self))])

    def getattr(self, interp, st, v, name, node=None):
        raise Unsupported("structure attribute %s" % name)

    def contains(self, interp, st, c, item):
        raise Unsupported("'in' on structure")

    def getitem(self, interp, st, v, idx, node=None):
        s = v.expr
        n = SLEN(s)
        if isinstance(idx, int):
            pos = z3.IntVal(idx) if idx >= 0 else n + idx
            if st.branch(z3.Or(pos < 0, pos >= n)):
                _raise("IndexError", "tuple index out of range", node)
            return self.item(interp, st, v, pos)
        raise Unsupported("symbolic structure index")

    def unpack(self, interp, st, v, n):
        raise Unsupported("unpack of structure")

    def comprehension(self, interp, st, fr, elt, g, it):
        return seq_comprehension(interp, st, fr, elt, g, it)


class FragTheory:
    name = "Frag"

    def __init__(self, seqth):
        self.seqth = seqth

    def truth(self, interp, st, v):
        raise Unsupported("truth of fragment")

    def equals(self, interp, st, a, b):
        if isinstance(b, VSym) and isinstance(b.theory, FragTheory):
            return a.expr == b.expr
        if isinstance(b, VSym) and isinstance(b.theory, AtomTheory):
            return z3.And(Frag.is_fatom(a.expr), Frag.atom_of(a.expr) == b.expr)
        return False

    def split(self, interp, st, v):
        """resolve the fragment to an atom or a sub-structure by branching on the datatype"""
        f = v.expr
        if st.branch(Frag.is_fatom(f)):
            return self.seqth.at.sym(st, Frag.atom_of(f))
        return self.seqth.sym(st, Frag.seq_of(f))

    def isinstance(self, interp, st, v, names):
        x = self.split(interp, st, v)
        return x.theory.isinstance(interp, st, x, names)

    def getattr(self, interp, st, v, name, node=None):
        x = self.split(interp, st, v)
        return x.theory.getattr(interp, st, x, name, node)

    def contains(self, interp, st, c, item):
        raise Unsupported("'in' on fragment")

    def len(self, interp, st, v):
        x = self.split(interp, st, v)
        return x.theory.len(interp, st, x)

    def getitem(self, interp, st, v, idx, node=None):
        x = self.split(interp, st, v)
        return x.theory.getitem(interp, st, x, idx, node)

    def unpack(self, interp, st, v, n):
        raise Unsupported("unpack of fragment")


def den_of(interp, st, value, a):
    """denotation of a (possibly hybrid: concrete tuples holding symbolic parts) structure at atom a"""
    from .values import VTuple, VList
    if isinstance(value, VSym):
        th = value.theory
        if isinstance(th, SeqTheory):
            th.whole(st, value.expr, a)
            return DEN(value.expr, a)
        if isinstance(th, FragTheory):
            return contrib(value.expr, a)
        if isinstance(th, AtomTheory):
            return z3.If(value.expr == a, z3.RealVal(1), z3.RealVal(0))
    if isinstance(value, (VTuple, VList)):
        total = z3.RealVal(0)
        for pair in value.items:
            if not (isinstance(pair, (VTuple, VList)) and len(pair.items) == 2):
                raise Unsupported("structure entry is not a (count, fragment) pair")
            c, f = pair.items
            total = total + to_real(c) * den_frag(interp, st, f, a)
        return total
    raise Unsupported("denotation of %r" % type(value).__name__)


def den_frag(interp, st, f, a):
    from .values import VTuple, VList
    if isinstance(f, VSym):
        th = f.theory
        if isinstance(th, AtomTheory):
            return z3.If(f.expr == a, z3.RealVal(1), z3.RealVal(0))
        if isinstance(th, FragTheory):
            return contrib(f.expr, a)
        if isinstance(th, SeqTheory):
            th.whole(st, f.expr, a)
            return DEN(f.expr, a)
    if isinstance(f, (VTuple, VList)):
        return den_of(interp, st, f, a)
    raise Unsupported("fragment %r" % type(f).__name__)


def unfold_small(st, seqth, S, a, upto=3):
    """definitional unfoldings of den/sup for the first few indices (sound, just instances)"""
    seqth.whole(st, S, a)
    seqth.base_prefix(st, S, a)
    for i in range(upto):
        seqth.unfold_prefix(st, S, z3.IntVal(i), a)


# ============================================================================ comprehensions over symbolic sequences
# [elt(x) for x in S]  is the sequence R = map(elt, S): same length, R_j = elt(S_j) for a generic index j.
# The element expression is evaluated once at a fresh index j (it must not fork); R is a fresh structure
# constant defined point-wise at j.  Facts about den(R) then need a lemma (congruence / permutation).

def seq_comprehension(interp, st, fr, elt, g, it):
    from .interp import Frame
    th = it.theory
    S = it.expr
    n = th.len(interp, st, it)
    j = st.fresh("j_comp", z3.IntSort())
    st.assume(z3.And(j >= 0, j < n))
    inner = Frame(dict(fr.locals), fr.closure, fr.modname, fr.func)
    item = th.item(interp, st, it, j)
    forks = st.forks
    interp.assign_target(st, inner, g.target, item)
    if g.ifs:
        raise Unsupported("filtered comprehension over a symbolic sequence")
    val = interp.eval(st, inner, elt)
    if st.forks != forks:
        raise Unsupported("comprehension element forks on the generic index (line %s)" % g.iter.lineno)
    R = st.fresh("comp_result", Seq)
    st.assume(z3.And(SLEN(R) == n, DEPTH(R) >= 0))
    rec = {"R": R, "S": S, "j": j, "value": val, "source": it}
    st.ghost.setdefault("comprehensions", []).append(rec)
    define = st.ghost.get("comp_define")
    if define is None:
        raise Unsupported("comprehension over a symbolic sequence without a comprehension contract")
    define(interp, st, rec)
    r = VSym(R, th if isinstance(th, SeqTheory) else st.ghost["seq_theory"])
    r.kind = "list"
    r.from_comp = True
    return r
