"""bin/check entry point: generate obligations from /repo's working tree, discharge them, replay
counter-models natively, run the closed (`eval`) families and bounded stand-ins, write evidence.

Exit codes: 0 held / 1 violation (VIOLATION line printed) / 2 undecided with no stand-in / 3 checker error.
"""
import argparse
import importlib
import json
import os
import re
import subprocess
import sys
import time
import traceback

VERIF = os.path.dirname(os.path.dirname(os.path.abspath(__file__)))
sys.path.insert(0, VERIF)

RUNNER_PY = os.environ.get("VERIF_RUNNER_PY", "/venv/bin/python")
OUT = os.environ.get("VERIF_OUT", VERIF)      # evidence/ and replays/ go here (seeded-change runs redirect it)


def log(*a):
    print(*a, flush=True)


def load_known():
    path = os.path.join(VERIF, "known_findings.json")
    if not os.path.exists(path):
        return []
    with open(path) as fh:
        return json.load(fh).get("findings", [])


def run_runner(module, task, tier, seed, arg=None, timeout=3600):
    """run one native task in the runner interpreter; returns its JSON result"""
    cmd = [RUNNER_PY, os.path.join(VERIF, "runner", "run.py"), module, task,
           "--tier", tier, "--seed", str(seed)]
    if arg is not None:
        cmd += ["--arg", json.dumps(arg)]
    env = dict(os.environ)
    env["PYTHONPATH"] = os.environ.get("VERIF_REPO", "/repo") + os.pathsep + VERIF
    env.pop("PERIODICTABLE_DATA", None)
    t0 = time.time()
    try:
        p = subprocess.run(cmd, capture_output=True, text=True, timeout=timeout, env=env,
                           cwd=os.environ.get("VERIF_SCRATCH", "/var/tmp"))
    except subprocess.TimeoutExpired:
        return {"task": task, "error": "timeout after %ss" % timeout, "violations": [], "evaluations": 0}
    out = p.stdout.strip().split("\n")
    res = None
    for line in reversed(out):
        if line.startswith("{"):
            try:
                res = json.loads(line)
                break
            except ValueError:
                continue
    if res is None:
        return {"task": task, "error": "runner produced no result (exit %s): %s" % (
            p.returncode, (p.stderr or p.stdout)[-1500:]), "violations": [], "evaluations": 0}
    res["wall_s"] = round(time.time() - t0, 2)
    return res


def _unit_worker(args):
    """generate the obligations of one unit in a worker process and solve them there"""
    prop_id, idx, tier, timeout_ms, both = args
    from pyvc import smt
    prop = importlib.import_module("props." + prop_id)
    units = prop.units(tier)
    u = units[idx]
    t0 = time.time()
    try:
        r = u.verify()
    except Exception:
        return {"unit": u.name, "target": getattr(u, "target", u.name), "crash": traceback.format_exc()}
    obs = r.obligations
    out = []
    for ob in obs:
        job = (ob.smt2(), 3000 if ob.expect_sat else timeout_ms, not ob.expect_sat, not ob.expect_sat, both and not ob.expect_sat)
        status, model, t, backend, reason, extra = smt.solve_one(job)
        if ob.expect_sat:
            # vacuity guard: only a *refuted* path condition is an error; "unknown" is not-refuted
            st_ = {"sat": "reachable", "unsat": "vacuous"}.get(status, "not-refuted")
        else:
            st_ = {"unsat": "discharged", "sat": "sat", "conflict": "conflict"}.get(status, "unknown")
        out.append({"name": ob.fullname, "kind": ob.kind, "status": st_, "backend": backend,
                    "time_s": round(t, 4), "model": model if st_ == "sat" else None,
                    "reason": reason, "info": {k: str(v) for k, v in (ob.info or {}).items()},
                    "smt2_head": None,
                    "retry_smt2": job[0] if st_ == "unknown" else None})
    funcs = [e.describe() for e in r.functions.values()]
    sample = obs[0].smt2()[:1500] if obs else None
    return {"unit": u.name, "target": getattr(u, "target", u.name), "obligations": out,
            "unsupported": r.unsupported, "paths": r.paths, "outcomes": r.outcomes,
            "functions": funcs, "assumed": sorted(r.assumed_lib), "assumptions": sorted(r.assumptions),
            "gen_time": round(r.gen_time, 3), "sample_smt2": sample, "replay": getattr(u, "replay", None),
            "advisory": bool(getattr(u, "advisory", False)),
            "clause": getattr(u, "prop_clause", None), "wall": round(time.time() - t0, 3)}


def verify_units(prop_id, tier, nunits, timeout_ms, both):
    from concurrent.futures import ProcessPoolExecutor
    from pyvc import smt
    jobs = [(prop_id, i, tier, timeout_ms, both) for i in range(nunits)]
    workers = min(int(os.environ.get("VERIF_WORKERS", "14")), max(1, nunits))
    with ProcessPoolExecutor(max_workers=workers) as ex:
        ures = list(ex.map(_unit_worker, jobs, chunksize=1))
    # wall-clock solver budgets depend on the load of the machine: what is still open after the first pass is tried
    # once more, after all units are done, with six times the budget (a busy machine must not flip a verdict)
    again = [ob for ur in ures if "crash" not in ur for ob in ur["obligations"] if ob.get("retry_smt2")]
    if again and not os.environ.get("VERIF_NO_RETRY"):
        with ProcessPoolExecutor(max_workers=min(workers, len(again))) as ex:
            res = list(ex.map(smt.solve_one, [(ob["retry_smt2"], 6 * timeout_ms, True, True, False) for ob in again], chunksize=1))
        for ob, (status, model, t, backend, reason, extra) in zip(again, res):
            ob["time_s"] = round(ob["time_s"] + t, 4)
            if status in ("sat", "unsat"):
                ob["status"] = "discharged" if status == "unsat" else "sat"
                ob["backend"], ob["reason"] = backend, "second pass (6x budget)"
                ob["model"] = model if status == "sat" else None
    for ur in ures:
        for ob in ur.get("obligations", []):
            ob.pop("retry_smt2", None)
    return ures


def check(prop_id, tier, seed):
    t_start = time.time()
    prop = importlib.import_module("props." + prop_id)
    known = [k for k in load_known() if k.get("property") == prop_id and k.get("status", "open") == "open"]
    timeout_ms = 15000 if tier == "quick" else 90000
    both = (tier == "thorough")

    # ---- deductive part
    units = prop.units(tier)
    ures = verify_units(prop_id, tier, len(units), timeout_ms, both) if units else []
    obligations = []
    undecided = []
    crashes = []
    functions = {}
    assumed = set()
    backend_counts = {}
    solver_time = 0.0
    for ur in ures:
        if "crash" in ur:
            crashes.append(ur)
            continue
        for f in ur["functions"]:
            functions[f["target"]] = f
        assumed |= set(ur["assumed"]) | set(ur["assumptions"])
        for msg in ur["unsupported"]:
            undecided.append({"unit": ur["unit"], "reason": "unsupported: " + str(msg)})
        for ob in ur["obligations"]:
            ob["unit"] = ur["unit"]
            ob["replay"] = ur.get("replay")
            ob["advisory"] = ur.get("advisory", False)
            obligations.append(ob)
            solver_time += ob["time_s"]
            if ob["status"] == "discharged":
                backend_counts[ob["backend"]] = backend_counts.get(ob["backend"], 0) + 1
    for c in crashes:
        # an engine crash on one unit is never a verdict: its clauses are undecided and fall to the stand-ins
        log("WARNING unit %s crashed in the engine (undecided):\n%s" % (c["unit"], c["crash"][-600:]))
        undecided.append({"unit": c["unit"], "reason": "engine crash: " + c["crash"].strip().split("\n")[-1]})

    # vacuity guards
    vac = [o for o in obligations if o["status"] == "vacuous"]
    if vac:
        for o in vac:
            log("CHECKER-ERROR vacuous precondition/path: %s" % o["name"])
        return finish(prop_id, tier, seed, t_start, exit_code=3, error="vacuous obligations")
    covers = [o for o in obligations if o["kind"] == "cover"]
    obligations = [o for o in obligations if o["kind"] != "cover"]
    per_unit = {}
    for o in obligations:
        per_unit[o["unit"]] = per_unit.get(o["unit"], 0) + 1
    for ur in ures:
        if "crash" not in ur and per_unit.get(ur["unit"], 0) == 0 and not ur["unsupported"]:
            log("CHECKER-ERROR unit %s generated zero obligations" % ur["unit"])
            return finish(prop_id, tier, seed, t_start, exit_code=3, error="zero obligations")

    # baseline expectations (names that discharge on the unchanged tree)
    expected = {}
    exp_path = os.path.join(VERIF, "contracts", "expected.json")
    if os.path.exists(exp_path):
        with open(exp_path) as fh:
            expected = json.load(fh).get(prop_id, {})
    if os.environ.get("VERIF_RECORD_BASELINE"):
        import fcntl
        with open(exp_path + ".lock", "w") as lk:
            fcntl.flock(lk, fcntl.LOCK_EX)
            allexp = {}
            if os.path.exists(exp_path):
                with open(exp_path) as fh:
                    allexp = json.load(fh)
            allexp[prop_id] = {"obligations": sorted(o["name"] for o in obligations if o["status"] == "discharged"),
                               "functions": {k: v["sha256"] for k, v in functions.items()}}
            with open(exp_path, "w") as fh:
                json.dump(allexp, fh, indent=1, sort_keys=True)
        expected = allexp[prop_id]
    exp_names = set(expected.get("obligations", []))
    exp_funcs = expected.get("functions", {})
    unchanged = all(functions.get(k, {}).get("sha256") == v for k, v in exp_funcs.items())
    have_names = set(o["name"] for o in obligations)
    if exp_names and unchanged:
        # how many paths are explored depends on feasibility queries that may time out on a loaded machine (an
        # undecided branch is explored; its obligations are then discharged from the contradictory path condition).
        # Only postcondition clauses and whole units are therefore required to re-appear, compared without path ordinals.
        import re as _re0
        base = lambda n: _re0.sub(r"#\d+$", "", n)
        have_b = set(base(n) for n in have_names)
        missing = set(base(n) for n in exp_names if "/post." in n or "/frame." in n or n.startswith("lemma:")) - have_b
        units_exp = set(n.split("/", 1)[0] for n in exp_names)
        units_have = set(n.split("/", 1)[0] for n in have_names) | set(u.get("unit") for u in undecided if u.get("unit"))
        missing |= set("unit " + u for u in units_exp - units_have)
        if missing and not undecided:
            log("CHECKER-ERROR obligations disappeared on unchanged sources: %s" % sorted(missing)[:5])
            return finish(prop_id, tier, seed, t_start, exit_code=3, error="obligation count dropped")

    violations = []       # dicts: obligation / key / what / replay payload
    known_seen = []
    sat_obs = [o for o in obligations if o["status"] in ("sat", "conflict")]
    for o in obligations:
        if o["status"] == "unknown":
            undecided.append({"obligation": o["name"], "reason": "solver: " + (o.get("reason") or "unknown")})

    # ---- native part: closed families (eval) and bounded stand-ins
    tasks = prop.runner_tasks(tier)
    task_results = []
    if tasks:
        from concurrent.futures import ThreadPoolExecutor
        with ThreadPoolExecutor(max_workers=min(8, len(tasks))) as ex:
            futs = [ex.submit(run_runner, t["module"], t["task"], tier, seed, t.get("arg"),
                              t.get("timeout", 3000)) for t in tasks]
            for t, f in zip(tasks, futs):
                r = f.result()
                r["kind"] = t["kind"]
                r["name"] = t.get("name", t["task"])
                r["clause"] = t.get("clause")
                task_results.append(r)
    for r in task_results:
        if r.get("error"):
            log("CHECKER-ERROR runner task %s: %s" % (r["name"], r["error"]))
            return finish(prop_id, tier, seed, t_start, exit_code=3, error="runner task failed: " + r["name"])

    import re as _re

    def known_match(key):
        for k in known:
            if k.get("key") == key or (k.get("key_prefix") and key.startswith(k["key_prefix"])) \
                    or (k.get("key_regex") and _re.match(k["key_regex"], key or "")):
                return k
        return None

    for r in task_results:
        r["known_hits"] = 0
        for v in r.get("violations", []):
            k = known_match(v.get("key", ""))
            if k is not None:
                r["known_hits"] += 1
                kid = k.get("key") or k.get("key_prefix") or k.get("key_regex")
                if not any(x["key"] == kid for x in known_seen):
                    known_seen.append({"key": kid, "what": k.get("what", v.get("what")), "example": v.get("key")})
                continue
            violations.append({"source": r["name"], "key": v.get("key"), "what": v.get("what"),
                               "input": v.get("input"), "observed": v.get("observed"),
                               "expected": v.get("expected"), "bounded": r["kind"] == "bounded"})

    # ---- replay of counter-models against the real code
    exp_bases = set(_re.sub(r"#\d+$", "", n) for n in exp_names)
    units_with_failed_establish = set(o["unit"] for o in sat_obs if o.get("kind") == "inv-establish")
    for o in sat_obs:
        payload = {"obligation": o["name"], "unit": o["unit"], "model": o.get("model"),
                   "solver": o.get("backend"), "status": o["status"]}
        confirmed = None
        if o.get("replay"):
            rr = run_runner(o["replay"]["module"], o["replay"]["task"], tier, seed,
                            {"model": o.get("model"), "obligation": o["name"]}, timeout=900)
            payload["replay_result"] = rr
            bad = [v for v in rr.get("violations", []) if known_match(v.get("key", "")) is None]
            if bad:
                confirmed = bad[0]
        # shape obligations compare source text of grammar productions: a failure there is advisory
        # (a harmless refactoring changes the text) and counts only if the native recogniser confirms it
        # (the same holds for the other lemmas that read the source text - registration, identity comparison, grammar
        #  defaults: they are conditions on how the code is written, sufficient but not necessary for the property, so a
        #  failure is a verdict only together with a failing input from their replay task)
        advisory = o["name"].startswith("lemma:grammar.shapes/") or o.get("advisory", False)
        # a loop invariant that does not even hold on entry means that the loop contract was written for a differently
        # organised loop (sums prepared before the loop, another accumulation scheme): the proof attempt fails, which is not
        # a statement about the property - every failed obligation of such a unit needs a failing input to count
        if o["unit"] in units_with_failed_establish:
            advisory = True
        # path ordinals (#k) are renumbered when the code changes: a clause counts as proved on the reference tree when
        # all its instances were discharged there (the baseline lists only discharged obligations and is recorded from a
        # run without undecided ones)
        was_proved = (o["name"] in exp_names or _re.sub(r"#\d+$", "", o["name"]) in exp_bases) and not advisory
        if confirmed is not None:
            violations.append({"source": "obligation " + o["name"], "key": confirmed.get("key"),
                               "what": confirmed.get("what"), "input": confirmed.get("input"),
                               "observed": confirmed.get("observed"), "expected": confirmed.get("expected"),
                               "obligation": payload})
        elif was_proved or (not exp_names and not advisory):
            violations.append({"source": "obligation " + o["name"], "key": "obligation:" + o["name"],
                               "what": "obligation discharged on the reference tree now has a counter-model",
                               "obligation": payload, "no_input": True})
        else:
            undecided.append({"obligation": o["name"], "reason": "sat, not in the proved baseline, replay found no failing input"})

    # named obligations first, then closed families, then (at most 5 per task) bounded stand-ins
    def rank(v):
        return 0 if str(v.get("source", "")).startswith("obligation") else (2 if v.get("bounded") else 1)
    per_src = {}
    kept = []
    for v in sorted(violations, key=rank):
        n = per_src.get(v["source"], 0)
        per_src[v["source"]] = n + 1
        if rank(v) == 0 or n < 5:
            kept.append(v)
    violations = kept

    # ---- known findings: print one line per listed finding that still reproduces
    for k in known_seen:
        log("KNOWN-FINDING: property=%s %s" % (prop_id, k["what"]))

    # ---- evidence
    n_ob = len(obligations)
    n_dis = sum(1 for o in obligations if o["status"] == "discharged")
    eval_tasks = [r for r in task_results if r["kind"] == "eval"]
    bounded_tasks = [r for r in task_results if r["kind"] == "bounded"]
    level = prop.LEVEL
    if (undecided or n_dis < n_ob) and level == "proof":
        level = "other"
    # closed obligations inside the region of a listed known finding are excluded from the claim
    # (DESIGN 2.8): they are reported under known_findings_seen, not counted as obligations
    ev_ob = sum(r.get("evaluations", 0) - r.get("known_hits", 0) for r in eval_tasks)
    ev_dis = sum(r.get("evaluations", 0) - len(r.get("violations", [])) for r in eval_tasks)
    if n_ob + ev_ob != n_dis + ev_dis and level == "proof":
        level = "other"
    cov = {
        "obligations": n_ob + ev_ob,
        "discharged": n_dis + ev_dis,
        "smt_obligations": n_ob, "smt_discharged": n_dis,
        "backends": backend_counts,
        "solver_time_s": round(solver_time, 2),
        "functions_under_contract": sorted(functions.values(), key=lambda f: f["target"]),
        "units": [{"unit": u["unit"], "target": u["target"], "paths": u.get("paths", 0), "outcomes": u.get("outcomes", {"engine crash": 1}),
                   "obligations": len(u.get("obligations", [])), "gen_time_s": u.get("gen_time", 0)} for u in ures],
        "undecided": undecided[:50],
        "vacuity_guards": {"cover_queries": len(covers),
                           "reachable": sum(1 for o in covers if o["status"] == "reachable"),
                           "not_refuted": sum(1 for o in covers if o["status"] == "not-refuted")},
        "eval_families": [{"task": r["name"], "evaluations": r.get("evaluations"), "exhaustive": r.get("exhaustive"),
                           "rule": r.get("rule"), "violations": len(r.get("violations", [])),
                           "wall_s": r.get("wall_s"), "notes": r.get("notes")} for r in eval_tasks],
        "bounded": [{"task": r["name"], "label": "bounded", "bound": r.get("rule"),
                     "evaluations": r.get("evaluations"), "distinct_nontrivial": r.get("distinct"),
                     "violations": len(r.get("violations", [])), "wall_s": r.get("wall_s"),
                     "notes": r.get("notes")} for r in bounded_tasks],
        "checker_cmd": "bin/check %s --tier %s" % (prop_id, tier),
        "trusted_base": sorted(assumed | set(prop.TRUSTED)),
        "known_findings_seen": known_seen,
        "evaluations": sum(r.get("evaluations", 0) for r in task_results) + n_ob,
        "distinct_nontrivial": sum(r.get("distinct", 0) or 0 for r in task_results) + n_dis,
        "rule": "SMT obligations generated from the working tree + native tasks; see eval_families/bounded",
        "explanation": prop.EXPLANATION,
        "samples": [],
    }
    for u in ures[:2]:
        if u.get("sample_smt2"):
            cov["samples"].append({"obligation_smt2_head": u["sample_smt2"][:800], "unit": u["unit"]})
    for r in task_results:
        for s in (r.get("samples") or [])[:3]:
            cov["samples"].append({"task": r["name"], "case": s})
    if not cov["samples"]:
        cov["samples"].append({"note": "no samples produced"})
    return finish(prop_id, tier, seed, t_start, level=level, coverage=cov, violations=violations,
                  assumptions=sorted(assumed | set(prop.TRUSTED)), undecided=undecided,
                  has_standin=bool(bounded_tasks or eval_tasks))


def finish(prop_id, tier, seed, t_start, exit_code=None, error=None, level="other", coverage=None,
           violations=None, assumptions=None, undecided=None, has_standin=True):
    violations = violations or []
    wall = round(time.time() - t_start, 2)
    if error is not None:
        # checker error: no evidence claim is made
        log("CHECKER-ERROR property=%s %s" % (prop_id, error))
        return exit_code
    ev = {"property_id": prop_id, "tier": tier, "seed": seed, "level": level, "coverage": coverage,
          "assumptions": assumptions or [], "wall_s": wall, "violations": len(violations)}
    os.makedirs(os.path.join(OUT, "evidence"), exist_ok=True)
    with open(os.path.join(OUT, "evidence", prop_id + ".json"), "w") as fh:
        json.dump(ev, fh, indent=1, default=str)
    if violations:
        rdir = os.path.join(OUT, "replays", prop_id)
        os.makedirs(rdir, exist_ok=True)
        for i, v in enumerate(violations[:20]):
            path = os.path.join(rdir, "violation_%02d.json" % i)
            with open(path, "w") as fh:
                json.dump(v, fh, indent=1, default=str)
            tail = " no-failing-input-found" if v.get("no_input") else ""
            log("VIOLATION property=%s replay=%s%s" % (prop_id, path, tail))
            log("  -> %s: %s" % (v.get("source"), v.get("what")))
        return 1
    if undecided and not has_standin:
        log("UNDECIDED property=%s (%d obligations undecided, no stand-in)" % (prop_id, len(undecided)))
        return 2
    log("OK property=%s tier=%s level=%s obligations=%s discharged=%s undecided=%d wall=%.1fs" % (
        prop_id, tier, level, coverage["obligations"], coverage["discharged"], len(undecided or []), wall))
    return 0


def replay(prop_id, path):
    with open(path) as fh:
        v = json.load(fh)
    prop = importlib.import_module("props." + prop_id)
    rp = getattr(prop, "REPLAY", None)
    log(json.dumps({k: v.get(k) for k in ("source", "key", "what", "input", "observed", "expected")}, indent=1, default=str))
    # violations of the shared bounded stand-ins are replayed by the task that found them
    key = str(v.get("key") or "")
    if key.startswith("independence:"):
        rp = {"module": "independence", "task": "replay"}
    elif re.match(r"(crash:)?C\d\d:", key):
        rp = {"module": "stateful", "task": "replay"}
    if rp is None or v.get("input") is None:
        log("no concrete input recorded; obligation: %s" % (v.get("obligation", {}) or {}).get("obligation"))
        return 1
    rr = run_runner(rp["module"], rp["task"], "quick", 0, {"input": v.get("input"), "key": v.get("key")})
    log(json.dumps(rr, indent=1, default=str)[:3000])
    return 1 if rr.get("violations") else 0


def selfcheck():
    import z3
    ok = True
    log("z3", z3.get_version_string())
    p = subprocess.run(["/usr/bin/cvc5", "--version"], capture_output=True, text=True)
    log(p.stdout.split("\n")[0])
    p = subprocess.run([RUNNER_PY, "-c", "import sys; sys.path.insert(0, '/repo'); import periodictable, numpy, pyparsing; print('runner ok', periodictable.__version__)"],
                       capture_output=True, text=True)
    log(p.stdout.strip() or p.stderr.strip())
    ok = ok and p.returncode == 0
    return 0 if ok else 3


def main():
    ap = argparse.ArgumentParser()
    ap.add_argument("prop", nargs="?")
    ap.add_argument("--tier", default=os.environ.get("VERIF_TIER", "quick"))
    ap.add_argument("--replay")
    ap.add_argument("--selfcheck", action="store_true")
    a = ap.parse_args()
    if a.selfcheck:
        sys.exit(selfcheck())
    tier = os.environ.get("VERIF_TIER") or a.tier
    if tier not in ("quick", "thorough"):
        tier = "quick"
    seed = int(os.environ.get("VERIF_SEED", "0") or 0)
    if a.replay:
        sys.exit(replay(a.prop, a.replay))
    try:
        code = check(a.prop, tier, seed)
    except Exception:
        traceback.print_exc()
        log("CHECKER-ERROR property=%s crashed" % a.prop)
        code = 3
    sys.exit(code)


if __name__ == "__main__":
    main()
